//go:build verif

// Contracts for package dsl, read by /verif/govc (comment-only file; excluded from every build without the tag "verif").
package dsl

// ---- library facts -------------------------------------------------------------------------------------
// yaml.v3 hands UnmarshalYAML a node tree that the callee never mutates.
//@ immutable gopkg.in/yaml.v3.Node.Kind, gopkg.in/yaml.v3.Node.Tag, gopkg.in/yaml.v3.Node.Value, gopkg.in/yaml.v3.Node.Content
//@ immutable gopkg.in/yaml.v3.Node.Line, gopkg.in/yaml.v3.Node.Column, gopkg.in/yaml.v3.Node.HeadComment, gopkg.in/yaml.v3.Node.Style
//@ immutable-family E#*gopkg.in/yaml.v3.Node
// yaml.v3 calls UnmarshalYAML with a non-nil receiver and a non-nil node.
//@ method-pre UnmarshalYAML nonnil
// A mapping node has an even number of children; children are never nil. (Nothing ties Tag to Kind: an explicit tag
// such as `!!map [a, b]` or `!record [..]` yields a sequence node carrying that tag.)
//@ type-invariant *yaml.Node n :: n.Kind == yaml.MappingNode ==> len(n.Content) % 2 == 0
//@ type-invariant *yaml.Node n :: n.Kind == yaml.DocumentNode || n.Kind == yaml.SequenceNode || n.Kind == yaml.MappingNode || n.Kind == yaml.ScalarNode || n.Kind == yaml.AliasNode
//@ type-invariant *yaml.Node n :: n.Kind == yaml.ScalarNode || n.Kind == yaml.AliasNode ==> len(n.Content) == 0
// a document is bounded by its file: no node has more than 2^20 children (assumption, listed in evidence)
//@ type-invariant *yaml.Node n :: len(n.Content) <= 1048576
//@ elems-nonnil *gopkg.in/yaml.v3.Node

// ---- C10: no-panic sweep of the front end ---------------------------------------------------------------
//@ sweep C10 file pkg/dsl/yaml.go
//@ sweep C10 file pkg/dsl/expressionparser.go
//@ sweep C10 file pkg/dsl/validation.go
//@ sweep C10 file pkg/dsl/validation_arrays.go
//@ sweep C10 file pkg/dsl/validation_maps.go
//@ sweep C10 file pkg/dsl/validation_enums.go
//@ sweep C10 file pkg/dsl/validation_unions.go
//@ sweep C10 file pkg/dsl/validation_type_resolution.go
//@ sweep C10 file pkg/dsl/validation_topological_sort.go
//@ sweep C10 file pkg/dsl/validation_computed_fields.go
//@ sweep C10 file pkg/dsl/typefunctions.go
//@ sweep C10 file pkg/dsl/rewriter.go
//@ sweep C10 file pkg/dsl/visitor.go
//@ sweep C10 file pkg/dsl/types.go

// ---- yaml.go: every function that receives yaml nodes is an entry point: its node arguments are arbitrary
// trees satisfying the axioms above. The only thing callers must establish is that the node is not nil.
//@ func UnmarshalExpression
//@   entry
//@   requires value != nil
//@ func UnmarshalSwitchExpression
//@   entry
//@   requires targetNode != nil
//@   requires len(caseNodes) % 2 == 0 && len(caseNodes) <= 1048576
//@ func UnmarshalPattern
//@   entry
//@   requires patternNode != nil
//@ func UnmarshalVectorYAML
//@   entry
//@   property C10
//@   requires value != nil
//@   ensures result1 == nil ==> result0 != nil
//@ func UnmarshalArrayYAML
//@   entry
//@   property C10
//@   requires value != nil
//@   ensures result1 == nil ==> result0 != nil
//@ func UnmarshalStreamYAML
//@   entry
//@   property C10
//@   requires value != nil
//@   ensures result1 == nil ==> result0 != nil
//@ func UnmarshalMapYAML
//@   entry
//@   property C10
//@   requires value != nil
//@   ensures result1 == nil ==> result0 != nil
//@ func UnmarshalTypeDefinition
//@   entry
//@   requires value != nil && definitionMeta != nil
//@ func UnmarshalTypeYAML
//@   entry
//@   requires value != nil
//@ func UnmarshalUnionYAML
//@   entry
//@   property C10
//@   requires value != nil
//@   ensures result1 == nil ==> result0 != nil
//@ func UnmarshalTypeCases
//@   entry
//@   requires value != nil
//@ func UnmarshalGenericNode
//@   entry
//@   requires value != nil
//@ func UnmarshalEnumValues
//@   entry
//@   property C10
//@   requires value != nil
//@   ensures result1 == nil ==> result0 != nil
//@   invariant 1: len(vals) * 2 == i && (forall k in 0..len(vals) :: vals[k] != nil)
//@ func parseError
//@   requires node != nil
//@ func createNodeMeta
//@   requires yamlNode != nil
//@ func UnmarshalFieldsOrProtocolStepsYAML
//@   entry
//@   requires value != nil && elements != nil

// ---- small pure model queries used by the generators' contracts ------------------------------------------
//@ func (*Array).IsFixed
//@   property C02,C14
//@   pure
//@   requires a != nil
//@   invariant 0: forall k in 0..rangeindex+1 :: (*a.Dimensions)[k].Length != nil
//@   ensures fixed_means_all_lengths: result ==> a.Dimensions != nil && (forall k in 0..len(*a.Dimensions) :: (*a.Dimensions)[k].Length != nil)
//@   ensures not_fixed_means_some_missing: !result ==> a.Dimensions == nil || (exists k in 0..len(*a.Dimensions) :: (*a.Dimensions)[k].Length == nil)

// Alias-transparent primitive lookup. "pure": the result depends only on the argument and the (unmodified) model.
//@ func GetPrimitiveType
//@   pure
//@ func GetUnderlyingType
//@   pure
