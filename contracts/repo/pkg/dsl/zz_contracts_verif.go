//go:build verif

// Contracts for package dsl, read by /verif/govc (comment-only file; excluded from every build without the tag "verif").
package dsl

// ---- library facts -------------------------------------------------------------------------------------
// yaml.v3 hands UnmarshalYAML a node tree that the callee never mutates.
//@ immutable gopkg.in/yaml.v3.Node.Kind, gopkg.in/yaml.v3.Node.Tag, gopkg.in/yaml.v3.Node.Value, gopkg.in/yaml.v3.Node.Content
//@ immutable gopkg.in/yaml.v3.Node.Line, gopkg.in/yaml.v3.Node.Column, gopkg.in/yaml.v3.Node.HeadComment, gopkg.in/yaml.v3.Node.Style
//@ immutable-family E#*gopkg.in/yaml.v3.Node
// yaml.v3 calls UnmarshalYAML with a non-nil receiver and a non-nil node.
//@ method-pre UnmarshalYAML nonnil
// A mapping node has an even number of children; children are never nil. (Nothing ties Tag to Kind: an explicit tag
// such as `!!map [a, b]` or `!record [..]` yields a sequence node carrying that tag.)
//@ axiom forall n *yaml.Node :: n != nil && n.Kind == yaml.MappingNode ==> len(n.Content) % 2 == 0
//@ axiom forall n *yaml.Node :: n != nil ==> (n.Kind == yaml.DocumentNode || n.Kind == yaml.SequenceNode || n.Kind == yaml.MappingNode || n.Kind == yaml.ScalarNode || n.Kind == yaml.AliasNode)
//@ axiom forall n *yaml.Node :: n != nil ==> (forall k in 0..len(n.Content) :: n.Content[k] != nil)

// ---- C10: no-panic sweep of the front end ---------------------------------------------------------------
//@ sweep C10 file pkg/dsl/yaml.go
