//go:build verif

// Contracts for package cpp/common, read by /verif/govc (comment-only file; excluded from every build without the tag "verif").
package common

// Type syntax is a function of the type (the model is not modified).
//@ func TypeSyntax
//@   pure
//@ func TypeDefinitionSyntax
//@   pure
//@ func FieldIdentifierName
//@   pure
//@ func AbstractWriterName
//@   pure
//@ func AbstractReaderName
//@   pure
