//go:build verif

// Contracts for package cpp/protocols, read by /verif/govc (comment-only file; excluded from every build without the tag "verif").
package protocols

// emitted(F): how many times the format literal F was printed by the function; emittedArg(F, n, j, int|string):
// operand j of its n-th printing. Literals a contract does not name are ignored.

// ---- C07: C++ writer: step i may be written only in state i; a non-stream step moves to i+1, a stream step
// stays in i until End<Step>() moves to i+1 --------------------------------------------------------------
//@ func writeDefinitions$1@writeWriteMethod
//@   property C07
//@   ensures guard_is_step_index:  emitted("if (unlikely(state_ != %d)) {\n") == 1 && emittedArg("if (unlikely(state_ != %d)) {\n", 0, 0, int) == i
//@   ensures nonstream_advances:   !step.IsStream() ==> emitted("state_ = %d;\n") == 1 && emittedArg("state_ = %d;\n", 0, 0, int) == i + 1
//@   ensures stream_stays:         step.IsStream() ==> emitted("state_ = %d;\n") == 0

// ---- C07: C++ reader. State 2k = ready to read step k; 2k+1 = the stream of step k ended but the caller has
// not yet observed it (it is observed by the next call) ------------------------------------------------------
// If the previous step was a stream whose completion is unobserved (state == expected-1), accept and move to the
// expected state; in every other wrong state report the error.
//@ func writeReaderStateUnobservedCompletionCheck
//@   property C07
//@   requires p != nil && prevStepIndex < len(p.Sequence)
//@   ensures after_stream_accepts_unobserved: prevStepIndex >= 0 && p.Sequence[prevStepIndex].IsStream() ==> emitted("if (state_ == %d) {\n") == 1 && emittedArg("if (state_ == %d) {\n", 0, 0, int) == expectedState - 1 && emitted("state_ = %d;\n") == 1 && emittedArg("state_ = %d;\n", 0, 0, int) == expectedState
//@   ensures otherwise_only_error: !(prevStepIndex >= 0 && p.Sequence[prevStepIndex].IsStream()) ==> emitted("if (state_ == %d) {\n") == 0 && emitted("state_ = %d;\n") == 0
//@   ensures error_reported_with_expected_state: emitted("%s(%d, state_);\n") == 1 && emittedArg("%s(%d, state_);\n", 0, 1, int) == expectedState

// Reading step i is allowed in state 2i. In state 2i+1 (only possible for a stream step) the call returns false and
// moves to 2i+2. Otherwise the unobserved completion of the previous step is checked against 2i.
//@ func writeReaderStateCheckIfStatement
//@   property C07
//@   requires protocol != nil && 0 <= stepIndex && stepIndex < len(protocol.Sequence)
//@   ensures guard_is_twice_index: emitted("if (unlikely(state_ != %d)) {\n") == 1 && emittedArg("if (unlikely(state_ != %d)) {\n", 0, 0, int) == 2 * stepIndex
//@   ensures stream_end_observed_here: protocol.Sequence[stepIndex].IsStream() ==> emittedArg("if (state_ == %d) {\n", 0, 0, int) == 2 * stepIndex + 1 && emittedArg("state_ = %d;\n", 0, 0, int) == 2 * stepIndex + 2
//@   ensures states_stay_in_step: emitted("state_ = %d;\n") <= 2 && (forall n in 0..emitted("state_ = %d;\n") :: (emittedArg("state_ = %d;\n", n, 0, int) == 2 * stepIndex || emittedArg("state_ = %d;\n", n, 0, int) == 2 * stepIndex + 2))
//@   ensures nonstream_has_no_odd_state: !protocol.Sequence[stepIndex].IsStream() && !(stepIndex >= 1 && protocol.Sequence[stepIndex-1].IsStream()) ==> emitted("if (state_ == %d) {\n") == 0 && emitted("state_ = %d;\n") == 0

// The per-protocol body of writeDefinitions. Loop 0 prints the writer methods of step i, loop 1 the reader methods.
//@ func writeDefinitions$1
//@   property C07
//@   requires p != nil
//@   iteration 0: writer_guards_use_step_index: emitted("if (unlikely(state_ != %d)) {\n") >= 1 && (forall n in 0..emitted("if (unlikely(state_ != %d)) {\n") :: emittedArg("if (unlikely(state_ != %d)) {\n", n, 0, int) == i)
//@   iteration 0: writer_advances_once_to_next: emitted("state_ = %d;\n") == 1 && emittedArg("state_ = %d;\n", 0, 0, int) == i + 1
//@   iteration 0: stream_has_three_entry_points: (step.IsStream() ==> emitted("if (unlikely(state_ != %d)) {\n") == 3) && (!step.IsStream() ==> emitted("if (unlikely(state_ != %d)) {\n") == 1)
//@   iteration 1: reader_guards_use_twice_index: emitted("if (unlikely(state_ != %d)) {\n") >= 1 && (forall n in 0..emitted("if (unlikely(state_ != %d)) {\n") :: emittedArg("if (unlikely(state_ != %d)) {\n", n, 0, int) == 2 * i)
//@   iteration 1: reader_states_stay_in_step: forall n in 0..emitted("state_ = %d;\n") :: (emittedArg("state_ = %d;\n", n, 0, int) == 2 * i || emittedArg("state_ = %d;\n", n, 0, int) == 2 * i + 1 || emittedArg("state_ = %d;\n", n, 0, int) == 2 * i + 2)
//@   iteration 1: reader_nonstream_advances: !step.IsStream() ==> emittedArg("state_ = %d;\n", emitted("state_ = %d;\n") - 1, 0, int) == 2 * (i + 1)
//@   ensures reader_close_expects_all_steps: emitted("if (!skip_completed_check_ && unlikely(state_ != %d)) {\n") == 1 && emittedArg("if (!skip_completed_check_ && unlikely(state_ != %d)) {\n", 0, 0, int) == 2 * old(len(p.Sequence))
