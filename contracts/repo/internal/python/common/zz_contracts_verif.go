//go:build verif

// Contracts for package python/common, read by /verif/govc (comment-only file; excluded from every build without the tag "verif").
package common

// Type syntax is a function of the type and the namespace (the model is not modified).
//@ func TypeSyntax
//@   pure
//@ func AbstractWriterName
//@   pure
//@ func AbstractReaderName
//@   pure
