//go:build verif

// Contracts for package matlab/types, read by /verif/govc (comment-only file; excluded from every build without the tag "verif").
package types

// ---- C19: same parenthesisation rule as the C++ emitter (MATLAB's binary operators, including ^, are
// left-associative) and element-wise operator tokens. ------------------------------------------------------------
//@ spec func isBin(e dsl.Expression) bool = typeof(e) == *dsl.BinaryExpression && e.(*dsl.BinaryExpression) != nil
//@ spec func opOf(e dsl.Expression) dsl.BinaryOperator = e.(*dsl.BinaryExpression).Operator
//@ spec func needsLeft(t *dsl.BinaryExpression) int = ite(isBin(t.Left) && opOf(t.Left).Precedence() < t.Operator.Precedence(), 1, 0)
//@ spec func needsRight(t *dsl.BinaryExpression) int = ite(isBin(t.Right) && opOf(t.Right).Precedence() <= t.Operator.Precedence(), 1, 0)
//@ func writeComputedFieldExpression@emits:".*"
//@   property C19
//@   requires t != nil
//@   ensures infix_operands_parenthesised_as_needed: emittedHere("(") == needsLeft(t) + needsRight(t) && emittedHere(")") == needsLeft(t) + needsRight(t)
//@   ensures elementwise_tokens: (t.Operator == dsl.BinaryOpAdd ==> emittedHere("+") == 1) && (t.Operator == dsl.BinaryOpSub ==> emittedHere("-") == 1) && (t.Operator == dsl.BinaryOpMul ==> emittedHere(".*") == 1) && (t.Operator == dsl.BinaryOpDiv ==> emittedHere("./") == 1) && (t.Operator == dsl.BinaryOpPow ==> emittedHere("^") == 1)
