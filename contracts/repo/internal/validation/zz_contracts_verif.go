//go:build verif

// Contracts for package validation, read by /verif/govc (comment-only file; excluded from every build without the tag "verif").
package validation

// ---- C09 / C12: the error sink --------------------------------------------------------------------------
//@ func (*ErrorSink).Add
//@   property C09
//@   requires e != nil
//@   ensures sink_grows_by_one: len(e.Errors) == old(len(e.Errors)) + 1

// A non-empty sink always yields a non-nil error, an empty one yields nil.
//@ func (*ErrorSink).AsError
//@   property C09
//@   requires e != nil
//@   ensures nonempty_sink_is_error: old(len(e.Errors)) > 0 ==> result != nil
//@   ensures empty_sink_is_nil:      old(len(e.Errors)) == 0 ==> result == nil

// ---- C12: diagnostics are ordered by (file, line, column, message): a lexicographic order over totally ordered keys,
// hence a strict weak order whose ties render identically. A missing line/column counts as 0. ---------------------------
//@ spec func lineOf(p *int) int = ite(p == nil, 0, *p)
//@ func (*ErrorSink).AsError$1
//@   property C12
//@   requires e != nil && 0 <= i && i < len(e.Errors) && 0 <= j && j < len(e.Errors)
//@   ensures lexicographic_file_line_column_message: result == (e.Errors[i].File < e.Errors[j].File || (e.Errors[i].File == e.Errors[j].File && (lineOf(e.Errors[i].Line) < lineOf(e.Errors[j].Line) || (lineOf(e.Errors[i].Line) == lineOf(e.Errors[j].Line) && (lineOf(e.Errors[i].Column) < lineOf(e.Errors[j].Column) || (lineOf(e.Errors[i].Column) == lineOf(e.Errors[j].Column) && e.Errors[i].Message.Error() < e.Errors[j].Message.Error()))))))
//@ func (*WarningSink).AsStrings$1
//@   property C12
//@   requires e != nil && 0 <= i && i < len(e.Warnings) && 0 <= j && j < len(e.Warnings)
//@   ensures lexicographic_file_line_column_message: result == (e.Warnings[i].File < e.Warnings[j].File || (e.Warnings[i].File == e.Warnings[j].File && (lineOf(e.Warnings[i].Line) < lineOf(e.Warnings[j].Line) || (lineOf(e.Warnings[i].Line) == lineOf(e.Warnings[j].Line) && (lineOf(e.Warnings[i].Column) < lineOf(e.Warnings[j].Column) || (lineOf(e.Warnings[i].Column) == lineOf(e.Warnings[j].Column) && e.Warnings[i].Message < e.Warnings[j].Message))))))
