//go:build verif

// Contracts for package validation, read by /verif/govc (comment-only file; excluded from every build without the tag "verif").
package validation

// ---- C09 / C12: the error sink --------------------------------------------------------------------------
//@ func (*ErrorSink).Add
//@   property C09
//@   requires e != nil
//@   ensures sink_grows_by_one: len(e.Errors) == old(len(e.Errors)) + 1

// A non-empty sink always yields a non-nil error, an empty one yields nil.
//@ func (*ErrorSink).AsError
//@   property C09
//@   requires e != nil
//@   ensures nonempty_sink_is_error: old(len(e.Errors)) > 0 ==> result != nil
//@   ensures empty_sink_is_nil:      old(len(e.Errors)) == 0 ==> result == nil
