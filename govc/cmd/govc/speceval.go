package main

import (
	"go/token"
	"sort"
	"fmt"
	"go/ast"
	"go/constant"
	"go/types"
	"math/big"
	"strings"

	"golang.org/x/tools/go/ssa"
)

type specVal struct {
	V   Val
	T   types.Type
	Pkg *types.Package // package reference
	Nil bool
}

type specEnv struct {
	specPkg *types.Package // names in the clause resolve in this package instead of the verified function's
	v       *FnVC
	fr      *frame
	st, old *State
	result  Val
	resType *types.Tuple
	over    map[string]Val
	bound   map[string]specVal
	guard   Term
	nq      *int
	loop    *loopInfo // clause attached to this loop: its body's variables shadow outer ones
	nextOf  map[string]Val // iteration clauses: next(x) = the value the loop-carried variable x takes at this back edge
	depth   int       // > 0 while evaluating the contract of a pure function used inside a contract
	// pol: +1 while evaluating a formula that is to be proved, -1 one that is assumed, 0 unknown. The ground instances
	// that are added to a bounded forall are redundant; as conjuncts of a goal each of them has to be proved again,
	// which sometimes helps the solvers and sometimes sends them astray: under a forall that is to be proved they
	// are wrapped in govc_opt(...), which the first formulation of a query defines as `true` and the second as the
	// identity (see Obligation.Query).
	pol int
}

func specErr(format string, a ...any) unsupportedErr {
	return unsupportedErr{"spec: " + fmt.Sprintf(format, a...)}
}

func (e *specEnv) evalBool(x SExpr) Term {
	sv := e.eval(x)
	sc, ok := sv.V.(Sc)
	if !ok || sc.T.Sort != SBool {
		panic(specErr("boolean expected in %v", x))
	}
	return sc.T
}

func (e *specEnv) with(name string, sv specVal) *specEnv {
	n := *e
	n.bound = map[string]specVal{}
	for k, v := range e.bound {
		n.bound[k] = v
	}
	n.bound[name] = sv
	return &n
}

func (e *specEnv) pkgOfFn() *types.Package {
	if e.specPkg != nil {
		return e.specPkg // a clause declared in the contract file of that package (type / child invariants)
	}
	f := e.fr.fn
	for f != nil {
		if f.Pkg != nil {
			return f.Pkg.Pkg
		}
		if o := f.Origin(); o != nil && o.Pkg != nil {
			return o.Pkg.Pkg
		}
		f = f.Parent()
	}
	return nil
}

func (w *World) findPackage(name string) *types.Package {
	if p, ok := w.PkgByID[name]; ok {
		return p.Types
	}
	var found *types.Package
	for path, p := range w.PkgByID {
		if strings.HasPrefix(path, modulePath) && shortPkg(path) == name {
			return p.Types
		}
	}
	for path, p := range w.PkgByID {
		if strings.HasPrefix(path, modulePath) && p.Types.Name() == name {
			if found != nil {
				return nil // ambiguous
			}
			found = p.Types
		}
	}
	if found != nil {
		return found
	}
	for _, p := range w.PkgByID {
		if p.Types.Name() == name {
			if found != nil && found != p.Types {
				return found
			}
			found = p.Types
		}
	}
	return found
}

func (w *World) resolveType(text string, ctx *types.Package) (types.Type, error) {
	if strings.HasPrefix(text, "*") {
		t, err := w.resolveType(text[1:], ctx)
		if err != nil {
			return nil, err
		}
		return types.NewPointer(t), nil
	}
	if strings.HasPrefix(text, "map[") {
		// map[K]V
		depth, k := 0, -1
		for i, c := range text {
			if c == '[' {
				depth++
			} else if c == ']' {
				depth--
				if depth == 0 {
					k = i
					break
				}
			}
		}
		if k < 0 {
			return nil, fmt.Errorf("bad map type %q", text)
		}
		kt, err := w.resolveType(text[4:k], ctx)
		if err != nil {
			return nil, err
		}
		vt, err := w.resolveType(text[k+1:], ctx)
		if err != nil {
			return nil, err
		}
		return types.NewMap(kt, vt), nil
	}
	if strings.HasPrefix(text, "[]") {
		t, err := w.resolveType(text[2:], ctx)
		if err != nil {
			return nil, err
		}
		return types.NewSlice(t), nil
	}
	if k := strings.LastIndex(text, "."); k >= 0 {
		p := w.findPackage(text[:k])
		if p == nil {
			return nil, fmt.Errorf("unknown package %q", text[:k])
		}
		o := p.Scope().Lookup(text[k+1:])
		if tn, ok := o.(*types.TypeName); ok {
			return tn.Type(), nil
		}
		return nil, fmt.Errorf("unknown type %q", text)
	}
	if ctx != nil {
		if tn, ok := ctx.Scope().Lookup(text).(*types.TypeName); ok {
			return tn.Type(), nil
		}
	}
	if tn, ok := types.Universe.Lookup(text).(*types.TypeName); ok {
		return tn.Type(), nil
	}
	return nil, fmt.Errorf("unknown type %q", text)
}

func exprToTypeText(x SExpr) (string, bool) {
	switch t := x.(type) {
	case *SType:
		return t.Text, true
	case SType:
		return t.Text, true
	case SUn:
		if t.Op == "*" {
			s, ok := exprToTypeText(t.X)
			return "*" + s, ok
		}
	case SSel:
		s, ok := exprToTypeText(t.X)
		return s + "." + t.Name, ok
	case SIdent:
		return t.Name, true
	case SBin:
		if t.Op == "/" {
			a, ok1 := exprToTypeText(t.L)
			b, ok2 := exprToTypeText(t.R)
			return a + "/" + b, ok1 && ok2
		}
	}
	return "", false
}

func constToSpecVal(c constant.Value, t types.Type, v *FnVC) specVal {
	switch c.Kind() {
	case constant.Bool:
		return specVal{V: Sc{BoolLit(constant.BoolVal(c))}, T: t}
	case constant.String:
		return specVal{V: Sc{StrLit(constant.StringVal(c))}, T: t}
	case constant.Int:
		bi, _ := new(big.Int).SetString(c.ExactString(), 10)
		return specVal{V: Sc{BigLit(bi)}, T: t}
	}
	panic(specErr("constant kind %v", c.Kind()))
}

func (e *specEnv) eval(x SExpr) specVal {
	v := e.v
	switch t := x.(type) {
	case SLit:
		switch t.Kind {
		case "int":
			bi, ok := new(big.Int).SetString(t.Val, 0)
			if !ok {
				panic(specErr("bad int %q", t.Val))
			}
			return specVal{V: Sc{BigLit(bi)}, T: types.Typ[types.UntypedInt]}
		case "string":
			return specVal{V: Sc{StrLit(t.Val)}, T: types.Typ[types.UntypedString]}
		case "bool":
			return specVal{V: Sc{BoolLit(t.Val == "true")}, T: types.Typ[types.Bool]}
		case "nil":
			return specVal{Nil: true}
		}
	case SIdent:
		return e.ident(t.Name)
	case SOld:
		n := *e
		n.st = e.old
		if t.HeapOnly {
			c := e.old.clone()
			c.ghost = e.st.ghost
			n.st = c
		}
		return n.eval(t.X)
	case SIte:
		nc := *e
		nc.pol = 0
		c := nc.evalBool(t.C)
		a, b := e.eval(t.A), e.eval(t.B)
		ty := a.T
		if ty == nil || isUntyped(ty) {
			ty = b.T
		}
		return specVal{V: valIte(c, e.coerce(a, ty), e.coerce(b, ty), defaultType(ty)), T: ty}
	case SUn:
		if t.Op == "!" {
			nn := *e
			nn.pol = -e.pol
			a := nn.eval(t.X)
			return specVal{V: Sc{Not(a.V.(Sc).T)}, T: types.Typ[types.Bool]}
		}
		a := e.eval(t.X)
		switch t.Op {
		case "!":
			return specVal{V: Sc{Not(a.V.(Sc).T)}, T: types.Typ[types.Bool]}
		case "-":
			return specVal{V: Sc{app(SInt, "-", a.V.(Sc).T)}, T: a.T}
		case "*":
			pt, ok := under(a.T).(*types.Pointer)
			if !ok {
				panic(specErr("deref of non-pointer %s", a.T))
			}
			return specVal{V: v.deref(e.st, a.V, pt.Elem(), e.g()), T: pt.Elem()}
		}
	case SBin:
		return e.binary(t)
	case SSel:
		base := e.eval(t.X)
		return e.sel(base, t.Name)
	case SIdx:
		base := e.eval(t.X)
		idx := e.eval(t.I)
		return e.index(base, idx)
	case SCall:
		return e.call(t)
	case SAssert:
		base := e.eval(t.X)
		ty, err := v.w.resolveType(t.T.Text, e.pkgOfFn())
		if err != nil {
			panic(specErr("%v", err))
		}
		iv, ok := base.V.(IfaceV)
		if !ok {
			panic(specErr("type assertion on non-interface"))
		}
		if kindOf(ty) == kIface {
			return specVal{V: iv, T: ty}
		}
		if payloadIsRef(ty) {
			return specVal{V: Sc{iv.Ref}, T: ty}
		}
		return specVal{V: v.unbox(ty, iv.Ref), T: ty}
	case SQuant:
		return e.quant(t)
	case STypeOf:
		panic(specErr("typeof() must be compared with a type"))
	}
	panic(specErr("cannot evaluate %T %v", x, x))
}

func isUntyped(t types.Type) bool {
	b, ok := t.(*types.Basic)
	return ok && b.Info()&types.IsUntyped != 0
}

func defaultType(t types.Type) types.Type {
	if t == nil {
		return types.Typ[types.Int]
	}
	if isUntyped(t) {
		return types.Default(t)
	}
	return t
}

func (e *specEnv) g() Term {
	if e.guard.S == "" {
		return tTrue
	}
	return e.guard
}

func (e *specEnv) ident(name string) specVal {
	v := e.v
	if sv, ok := e.bound[name]; ok {
		return sv
	}
	fn := e.fr.fn
	if alt := renamedLoopVar(fn, name); alt != "" {
		name = alt
	}
	_, carried := e.over[name]
	if e.loop != nil && !carried {
		// (a loop-carried variable of the loop whose invariant is evaluated is resolved through e.over below:
		// it denotes the phi, never one of the intermediate values the body computes for it)
		// innermost scope first: variables declared in the loop body, then in the enclosing loops
		scopes := []*loopInfo{e.loop}
		{
			var outer []*loopInfo
			for _, li := range e.fr.loops {
				if li != e.loop && li.body[e.loop.header.Index] {
					outer = append(outer, li)
				}
			}
			sort.Slice(outer, func(a, b int) bool { return len(outer[a].body) < len(outer[b].body) })
			scopes = append(scopes, outer...)
		}
		var found ssa.Value
		for _, scope := range scopes {
			for _, b := range fn.Blocks {
				if !scope.body[b.Index] {
					continue
				}
				for _, ins := range b.Instrs {
					if al, ok := ins.(*ssa.Alloc); ok && al.Comment == name {
						if cell, ok := e.fr.vals[al]; ok {
							et := elemTypeOfAddr(al)
							if kindOf(et) == kStruct {
								return specVal{V: cell, T: al.Type()}
							}
							return specVal{V: v.deref(e.st, cell, et, e.g()), T: et}
						}
					}
				}
			}
			for _, b := range fn.Blocks {
				if !scope.body[b.Index] {
					continue
				}
				for _, ins := range b.Instrs {
					if dr, ok := ins.(*ssa.DebugRef); ok && !dr.IsAddr {
						if id, ok := dr.Expr.(*ast.Ident); ok && id.Name == name {
							if ob := dr.Object(); ob != nil && ob.Pkg() != nil && ob.Parent() == ob.Pkg().Scope() {
								continue
							}
							if cellv, et, x0, ok := e.loadOfNamedCell(dr.X, name); ok {
								// a variable that lives in a cell (its address is taken somewhere): the name denotes
								// the cell's current content, not the value some earlier statement loaded from it
								if kindOf(et) == kStruct {
									return specVal{V: cellv, T: x0.Type()}
								}
								return specVal{V: v.deref(e.st, cellv, et, e.g()), T: et}
							}
							if _, have := e.fr.vals[dr.X]; have {
								if found == nil {
									found = dr.X
								}
							} else if bo, isBin := dr.X.(*ssa.BinOp); isBin && bo.Op == token.ADD && scope == e.loop {
								// the index variable of a range loop (`for i, x := range s`) is the hidden counter + 1;
								// at the loop head, where the body has not run, it denotes that value
								if phi, isPhi := bo.X.(*ssa.Phi); isPhi && phi.Comment == "rangeindex" && phi.Block() == e.loop.header {
									if c, isC := bo.Y.(*ssa.Const); isC && c.Int64() == 1 {
										if hv, ok := e.over["rangeindex"]; ok {
											if hs, ok := hv.(Sc); ok {
												return specVal{V: Sc{Add(hs.T, IntLit(1))}, T: dr.X.Type()}
											}
										}
									}
								}
							}
						}
					}
				}
			}
			if found != nil {
				break
			}
			if scope == e.loop {
				if _, ok := e.over[name]; ok {
					break // a loop-carried variable of the innermost loop: resolved below
				}
			}
		}
		if found != nil {
			return specVal{V: v.value(e.fr, found), T: found.Type()}
		}
	}
	if e.result != nil {
		res := e.resType
		if name == "result" && res.Len() == 1 {
			return specVal{V: e.result, T: res.At(0).Type()}
		}
		if strings.HasPrefix(name, "result") && res.Len() > 1 {
			var k int
			if _, err := fmt.Sscanf(name, "result%d", &k); err == nil && k < res.Len() {
				return specVal{V: e.result.(TupleV).E[k], T: res.At(k).Type()}
			}
		}
		for i := 0; i < res.Len(); i++ {
			if res.At(i).Name() == name && name != "" && name != "_" {
				if res.Len() == 1 {
					return specVal{V: e.result, T: res.At(0).Type()}
				}
				return specVal{V: e.result.(TupleV).E[i], T: res.At(i).Type()}
			}
		}
	}
	if ov, ok := e.over[name]; ok {
		// type from the phi
		for _, b := range fn.Blocks {
			for _, ins := range b.Instrs {
				if phi, ok := ins.(*ssa.Phi); ok && phi.Comment == name {
					return specVal{V: ov, T: phi.Type()}
				}
			}
		}
	}
	for i, p := range fn.Params {
		if p.Name() == name {
			return specVal{V: e.fr.vals[p], T: p.Type()}
		} else if i == 0 && name == "recv" && fn.Signature.Recv() != nil {
			return specVal{V: e.fr.vals[p], T: p.Type()}
		}
	}
	for _, p := range fn.FreeVars {
		if p.Name() == name {
			// captured variables are cells: the identifier denotes the cell's content
			if pt, ok := under(p.Type()).(*types.Pointer); ok {
				return specVal{V: v.deref(e.st, e.fr.vals[p], pt.Elem(), e.g()), T: pt.Elem()}
			}
			return specVal{V: e.fr.vals[p], T: p.Type()}
		}
	}
	// address-taken locals (Alloc with that name), only when already executed
	for _, b := range fn.Blocks {
		for _, ins := range b.Instrs {
			if al, ok := ins.(*ssa.Alloc); ok && al.Comment == name {
				if cell, ok := e.fr.vals[al]; ok {
					et := elemTypeOfAddr(al)
					if kindOf(et) == kStruct {
						return specVal{V: cell, T: al.Type()}
					}
					return specVal{V: v.deref(e.st, cell, et, e.g()), T: et}
				}
			}
		}
	}
	// plain local variables (SSA registers), through debug references; the variable must denote one value
	{
		var found ssa.Value
		ambiguous := false
		// several variables of that name (one per clause of a type switch, or shadowing blocks): in a loop clause
		// the name denotes the variable whose lexical scope holds the loop
		var inScope ssa.Value
		inScopeAmbiguous := false
		var lpos token.Pos
		if e.loop != nil {
			lpos = loopPos(fn, e.loop)
		}
		for _, b := range fn.Blocks {
			for _, ins := range b.Instrs {
				if dr, ok := ins.(*ssa.DebugRef); ok && !dr.IsAddr {
					if id, ok := dr.Expr.(*ast.Ident); ok && id.Name == name {
						if ob := dr.Object(); ob != nil && ob.Pkg() != nil && ob.Parent() == ob.Pkg().Scope() {
							continue // a package-level object, not a local variable
						}
						if _, have := e.fr.vals[dr.X]; !have {
							if _, isC := dr.X.(*ssa.Const); !isC {
								continue
							}
						}
						if found != nil && found != dr.X {
							ambiguous = true
						}
						found = dr.X
						if ob := dr.Object(); ob != nil && ob.Parent() != nil && lpos.IsValid() && ob.Parent().Contains(lpos) {
							if inScope != nil && inScope != dr.X {
								inScopeAmbiguous = true
							}
							inScope = dr.X
						}
					}
				}
			}
		}
		if ambiguous && inScope != nil && !inScopeAmbiguous {
			return specVal{V: v.value(e.fr, inScope), T: inScope.Type()}
		}
		if found != nil && !ambiguous {
			return specVal{V: v.value(e.fr, found), T: found.Type()}
		}
		if ambiguous && e.loop != nil {
			// a variable that this loop does not carry: it has one value while the loop runs, the one that reaches
			// the loop head
			if rv := reachingAtLoopHead(fn, e.loop.header, name, e.fr); rv != nil {
				return specVal{V: v.value(e.fr, rv), T: rv.Type()}
			}
		}
		if ambiguous && e.loop == nil && e.result != nil && e.depth == 0 && len(e.fr.rets) > 0 && found != nil {
			// a postcondition: at each return the variable holds the value that reaches it (an unknown value where
			// the variable is not in scope)
			rets := e.fr.rets
			vals := make([]Val, len(rets))
			okAll := true
			for i, r := range rets {
				rv, inScope := reachingAt(fn, fn.Blocks[r.blk], true, name, e.fr)
				if !inScope {
					vals[i] = v.scalarizeVal(v.freshTyped("outofscope."+name, found.Type(), e.st, r.reach))
					continue
				}
				if rv == nil {
					okAll = false
					break
				}
				vals[i] = v.scalarizeVal(v.value(e.fr, rv))
				if !types.Identical(rv.Type(), found.Type()) {
					okAll = false
					break
				}
			}
			if okAll {
				cur := vals[len(rets)-1]
				for i := len(rets) - 2; i >= 0; i-- {
					cur = valIte(rets[i].reach, vals[i], cur, found.Type())
				}
				return specVal{V: cur, T: found.Type()}
			}
		}
		if ambiguous {
			panic(specErr("local variable %q denotes several values in %s; name a phi or use a parameter", name, FuncKey(fn)))
		}
	}
	// package scope
	if pkg := e.pkgOfFn(); pkg != nil {
		if o := pkg.Scope().Lookup(name); o != nil {
			return e.object(o)
		}
		for _, imp := range pkg.Imports() {
			if imp.Name() == name {
				return specVal{Pkg: imp}
			}
		}
	}
	if p := v.w.findPackage(name); p != nil {
		return specVal{Pkg: p}
	}
	// contracts bind parameters by position: a name that was a parameter when the lock was written denotes the
	// parameter that is at that position now (a renamed parameter keeps its contract)
	if lp := lockedParams()[FuncKey(fn)]; lp != nil {
		for i, n := range lp {
			if n == name && i < len(fn.Params) && e.fr.vals[fn.Params[i]] != nil {
				return specVal{V: e.fr.vals[fn.Params[i]], T: fn.Params[i].Type()}
			}
		}
	}
	panic(specErr("unknown identifier %q in contract of %s", name, FuncKey(fn)))
}

func (e *specEnv) object(o types.Object) specVal {
	v := e.v
	switch ob := o.(type) {
	case *types.Const:
		return constToSpecVal(ob.Val(), ob.Type(), v)
	case *types.Var:
		// package-level variable
		g, ok := v.w.Prog.Package(ob.Pkg()).Members[ob.Name()].(*ssa.Global)
		if !ok {
			panic(specErr("global %s not found", ob.Name()))
		}
		if c, ok := v.w.ConstGlobals()[g]; ok {
			return specVal{V: v.constVal(c), T: ob.Type()}
		}
		addr := Sc{v.globalAddr(g)}
		if kindOf(ob.Type()) == kStruct {
			return specVal{V: addr, T: types.NewPointer(ob.Type())}
		}
		val := v.deref(e.st, addr, ob.Type(), e.g())
		v.assumeConstStringSet(g, val, e.st, e.g())
		v.assumeBigIntGlobal(g, val, e.g())
		return specVal{V: val, T: ob.Type()}
	}
	panic(specErr("cannot use %s in a contract", o.Name()))
}

func (e *specEnv) coerce(sv specVal, t types.Type) Val {
	if sv.Nil {
		if t == nil {
			panic(specErr("untyped nil"))
		}
		return zeroVal(t, e.v.sc)
	}
	return sv.V
}

func (e *specEnv) sel(base specVal, name string) specVal {
	if base.Pkg != nil {
		o := base.Pkg.Scope().Lookup(name)
		if o == nil {
			panic(specErr("%s.%s not found", base.Pkg.Name(), name))
		}
		return e.object(o)
	}
	if base.T == nil {
		panic(specErr("selector %s on untyped value", name))
	}
	if tu, ok := base.T.(*types.Tuple); ok {
		tv := base.V.(TupleV)
		for i := 0; i < tu.Len(); i++ {
			if tu.At(i).Name() == name || fmt.Sprintf("r%d", i) == name {
				return specVal{V: tv.E[i], T: tu.At(i).Type()}
			}
		}
		panic(specErr("no result %s in %s", name, tu))
	}
	obj, path, _ := types.LookupFieldOrMethod(base.T, true, nil, name)
	if obj == nil {
		// unexported field: need the package
		if n := namedOf(base.T); n != nil && n.Obj().Pkg() != nil {
			obj, path, _ = types.LookupFieldOrMethod(base.T, true, n.Obj().Pkg(), name)
		}
	}
	fld, ok := obj.(*types.Var)
	if !ok || !fld.IsField() {
		panic(specErr("no field %s in %s", name, base.T))
	}
	cur := base
	for _, i := range path {
		cur = e.field(cur, i)
	}
	return cur
}

func namedOf(t types.Type) *types.Named {
	t = types.Unalias(t)
	if p, ok := t.(*types.Pointer); ok {
		t = types.Unalias(p.Elem())
	}
	n, _ := t.(*types.Named)
	return n
}

func (e *specEnv) field(cur specVal, i int) specVal {
	v := e.v
	t := cur.T
	if pt, ok := under(t).(*types.Pointer); ok {
		st := under(pt.Elem()).(*types.Struct)
		ft := st.Field(i).Type()
		ref, ok := cur.V.(Sc)
		if !ok {
			panic(specErr("field of non-ref pointer"))
		}
		fa := v.fieldAddr(ref.T, pt.Elem(), i)
		switch x := fa.(type) {
		case PtrV:
			return specVal{V: v.loadLoc(e.st, x.L, e.g()), T: ft}
		case Sc:
			if kindOf(ft) == kStruct {
				// keep as pointer to nested struct: selecting further works on pointers
				return specVal{V: x, T: types.NewPointer(ft)}
			}
			return specVal{V: x, T: types.NewPointer(ft)}
		}
	}
	if st, ok := under(t).(*types.Struct); ok {
		sv, ok := cur.V.(StructV)
		if !ok {
			panic(specErr("struct value expected"))
		}
		return specVal{V: sv.F[i], T: st.Field(i).Type()}
	}
	panic(specErr("field selection on %s", t))
}

func (e *specEnv) index(base, idx specVal) specVal {
	v := e.v
	it := idx.V
	switch bt := under(base.T).(type) {
	case *types.Slice:
		sv := base.V.(SliceV)
		abs := Add(sv.Off, it.(Sc).T)
		switch kindOf(bt.Elem()) {
		case kStruct:
			return specVal{V: Sc{v.elemAddr(bt.Elem(), sv.Arr, abs)}, T: types.NewPointer(bt.Elem())}
		}
		return specVal{V: v.loadLoc(e.st, Loc{Kind: locElem, Base: sv.Arr, Idx: abs, T: bt.Elem()}, e.g()), T: bt.Elem()}
	case *types.Map:
		key, ok := v.mapKeyTerm(e.coerce(idx, bt.Key()), bt.Key())
		if !ok || !v.mapValueSupported(bt) {
			panic(specErr("unsupported map type in contract"))
		}
		// Go semantics: the zero value when the key is absent (or the map is nil)
		m := base.V.(Sc).T
		dom, _ := v.mapParts(e.st, bt, m)
		in := And(Not(Eq(m, tZero)), Select(dom, key, SBool))
		raw := v.mapRead(e.st, bt, m, key, e.g())
		return specVal{V: valIte(in, raw, zeroVal(bt.Elem(), v.sc), bt.Elem()), T: bt.Elem()}
	case *types.Basic:
		if bt.Info()&types.IsString != 0 {
			return specVal{V: Sc{app(SInt, "str.to_code", app(SStr, "str.at", base.V.(Sc).T, it.(Sc).T))}, T: types.Typ[types.Uint8]}
		}
	case *types.Pointer:
		if at, ok := under(bt.Elem()).(*types.Array); ok {
			return specVal{V: v.loadLoc(e.st, Loc{Kind: locElem, Base: base.V.(Sc).T, Idx: it.(Sc).T, T: at.Elem()}, e.g()), T: at.Elem()}
		}
	}
	panic(specErr("cannot index %s", base.T))
}

func (e *specEnv) nilCompare(sv specVal) Term {
	switch x := sv.V.(type) {
	case IfaceV:
		return Eq(x.Tag, tZero)
	case SliceV:
		return Eq(x.Arr, tZero)
	case Sc:
		return Eq(x.T, tZero)
	case PtrV:
		return tFalse
	case FuncV:
		if x.Fn != nil {
			return tFalse
		}
		return Eq(x.Ref, tZero)
	}
	panic(specErr("nil comparison on %T", sv.V))
}

func (e *specEnv) binary(b SBin) specVal {
	v := e.v
	boolT := types.Typ[types.Bool]
	switch b.Op {
	case "&&":
		return specVal{V: Sc{And(e.evalBool(b.L), e.evalBool(b.R))}, T: boolT}
	case "||":
		return specVal{V: Sc{Or(e.evalBool(b.L), e.evalBool(b.R))}, T: boolT}
	case "==>":
		nl := *e
		nl.pol = -e.pol
		l := nl.evalBool(b.L)
		n := *e
		n.guard = And(e.g(), l)
		return specVal{V: Sc{Implies(l, n.evalBool(b.R))}, T: boolT}
	case "<==>":
		n0 := *e
		n0.pol = 0
		return specVal{V: Sc{Eq(n0.evalBool(b.L), n0.evalBool(b.R))}, T: boolT}
	case "==", "!=":
		if e.pol != 0 {
			n0 := *e
			n0.pol = 0
			return n0.binary(b)
		}
		neg := func(t Term) specVal {
			if b.Op == "!=" {
				t = Not(t)
			}
			return specVal{V: Sc{t}, T: boolT}
		}
		// typeof comparisons
		if to, ok := b.L.(STypeOf); ok {
			return neg(e.typeTest(to.X, b.R))
		}
		if to, ok := b.R.(STypeOf); ok {
			return neg(e.typeTest(to.X, b.L))
		}
		l, r := e.eval(b.L), e.eval(b.R)
		if l.Nil && r.Nil {
			return neg(tTrue)
		}
		if l.Nil {
			return neg(e.nilCompare(r))
		}
		if r.Nil {
			return neg(e.nilCompare(l))
		}
		// implicit conversion of a concrete operand when compared with an interface value
		if _, li := l.V.(IfaceV); li {
			if _, ri := r.V.(IfaceV); !ri && r.T != nil {
				r = specVal{V: v.makeIface(r.V, r.T), T: l.T}
			}
		} else if _, ri := r.V.(IfaceV); ri && l.T != nil {
			l = specVal{V: v.makeIface(l.V, l.T), T: r.T}
		}
		return neg(v.equal(l.V, r.V, l.T, r.T))
	case "in":
		l, r := e.eval(b.L), e.eval(b.R)
		mt, ok := under(r.T).(*types.Map)
		if !ok {
			panic(specErr("'in' needs a map"))
		}
		key, ok := v.mapKeyTerm(e.coerce(l, mt.Key()), mt.Key())
		if !ok {
			panic(specErr("unsupported map key"))
		}
		m := r.V.(Sc).T
		dom, _ := v.mapParts(e.st, mt, m)
		return specVal{V: Sc{And(Not(Eq(m, tZero)), Select(dom, key, SBool))}, T: boolT}
	}
	l, r := e.eval(b.L), e.eval(b.R)
	ls, lok := l.V.(Sc)
	rs, rok := r.V.(Sc)
	if !lok || !rok {
		panic(specErr("operator %s on non-scalars", b.Op))
	}
	ty := l.T
	if ty == nil || isUntyped(ty) {
		ty = r.T
	}
	switch ls.T.Sort {
	case SStr:
		switch b.Op {
		case "+":
			return specVal{V: Sc{app(SStr, "str.++", ls.T, rs.T)}, T: ty}
		case "<":
			return specVal{V: Sc{app(SBool, "str.<", ls.T, rs.T)}, T: boolT}
		case "<=":
			return specVal{V: Sc{app(SBool, "str.<=", ls.T, rs.T)}, T: boolT}
		case ">":
			return specVal{V: Sc{app(SBool, "str.<", rs.T, ls.T)}, T: boolT}
		case ">=":
			return specVal{V: Sc{app(SBool, "str.<=", rs.T, ls.T)}, T: boolT}
		}
	case SInt:
		switch b.Op {
		case "+":
			return specVal{V: Sc{Add(ls.T, rs.T)}, T: ty}
		case "-":
			return specVal{V: Sc{Sub(ls.T, rs.T)}, T: ty}
		case "*":
			return specVal{V: Sc{app(SInt, "*", ls.T, rs.T)}, T: ty}
		case "/":
			return specVal{V: Sc{app(SInt, "div", ls.T, rs.T)}, T: ty}
		case "%":
			return specVal{V: Sc{app(SInt, "mod", ls.T, rs.T)}, T: ty}
		case "<":
			return specVal{V: Sc{Lt(ls.T, rs.T)}, T: boolT}
		case "<=":
			return specVal{V: Sc{Le(ls.T, rs.T)}, T: boolT}
		case ">":
			return specVal{V: Sc{Lt(rs.T, ls.T)}, T: boolT}
		case ">=":
			return specVal{V: Sc{Le(rs.T, ls.T)}, T: boolT}
		case "&", "|", "&^", "^":
			tok := map[string]int{"&": 0, "|": 1, "&^": 2, "^": 3}[b.Op]
			ops := []string{"&", "|", "&^", "^"}
			_ = ops
			return specVal{V: Sc{v.bitop(bitTok(tok), ls.T, rs.T, defaultType(ty))}, T: ty}
		}
	}
	panic(specErr("operator %s on sort %s", b.Op, ls.T.Sort))
}

func (e *specEnv) typeTest(x SExpr, ty SExpr) Term {
	v := e.v
	sv := e.eval(x)
	iv, ok := sv.V.(IfaceV)
	if !ok {
		panic(specErr("typeof on non-interface value"))
	}
	if lit, ok := ty.(SLit); ok && lit.Kind == "nil" {
		return Eq(iv.Tag, tZero)
	}
	txt, ok := exprToTypeText(ty)
	if !ok {
		panic(specErr("type expected after typeof comparison"))
	}
	t, err := v.w.resolveType(txt, e.pkgOfFn())
	if err != nil {
		panic(specErr("%v", err))
	}
	if kindOf(t) == kIface {
		return And(Not(Eq(iv.Tag, tZero)), v.implTerm(t, iv.Tag))
	}
	return Eq(iv.Tag, v.tagOf(t))
}

func (e *specEnv) quant(q SQuant) specVal {
	v := e.v
	v.sc.nfresh++
	name := fmt.Sprintf("q.%s!%d", q.Var, v.sc.nfresh)
	var bv specVal
	var rng Term = tTrue
	sort := SInt
	if q.VarType != nil {
		t, err := v.w.resolveType(q.VarType.Text, e.pkgOfFn())
		if err != nil {
			panic(specErr("%v", err))
		}
		if kindOf(t) != kScalar {
			panic(specErr("quantified variable must be scalar"))
		}
		sort = scalarSort(t)
		bv = specVal{V: Sc{Term{sym(name), sort}}, T: t}
		if lo, hi, ok := intRange(t); ok {
			rng = And(Le(BigLit(lo), Term{sym(name), SInt}), Le(Term{sym(name), SInt}, BigLit(hi)))
		}
	} else {
		k := Term{sym(name), SInt}
		lo, hi := e.eval(q.Lo).V.(Sc).T, e.eval(q.Hi).V.(Sc).T
		rng = And(Le(lo, k), Lt(k, hi))
		bv = specVal{V: Sc{k}, T: types.Typ[types.Int]}
	}
	n := e.with(q.Var, bv)
	n.guard = And(e.g(), rng)
	inst := q.VarType == nil
	v.optInst = q.Forall && e.pol > 0 // instances of a forall that is to be proved: only in the second formulation of the goal
	res := v.underBinder(sym(name), sort, rng, q.Forall, inst, func() Term { return n.evalBool(q.Body) })
	return specVal{V: Sc{Term{res, SBool}}, T: types.Typ[types.Bool]}
}


// underBinder evaluates body() with a bound SMT variable in scope and returns the quantified formula.
// Definitions emitted during the evaluation that mention the bound variable are inlined into the body;
// asserts that mention it are dropped (they only add assumptions). For Int binders with a range, ground
// instances at the index terms used by the code are added (logically redundant).
func (v *FnVC) underBinder(bsym string, sort Sort, rng Term, forall bool, instantiate bool, body func() Term) string {
	optInst := v.optInst
	v.optInst = false
	mark := len(v.sc.lines)
	bodyT := body()
	leaked := append([]string(nil), v.sc.lines[mark:]...)
	var keep []string
	var inner []string
	innerNames := []string{bsym}
	for _, l := range leaked {
		isInner := false
		for _, n := range innerNames {
			if containsSym(l, n) {
				isInner = true
				break
			}
		}
		if isInner {
			inner = append(inner, l)
			if strings.HasPrefix(l, "(define-fun ") {
				rest := strings.TrimPrefix(l, "(define-fun ")
				innerNames = append(innerNames, rest[:defNameEnd(rest)])
			}
		} else {
			keep = append(keep, l)
		}
	}
	v.sc.lines = append(v.sc.lines[:mark], keep...)
	bodyS := bodyT.S
	defs := map[string]string{}
	for _, l := range inner {
		if strings.HasPrefix(l, "(define-fun ") {
			rest := strings.TrimPrefix(l, "(define-fun ")
			sp := defNameEnd(rest)
			dn := rest[:sp]
			r2 := strings.TrimPrefix(rest[sp+1:], "() ")
			si := sortEnd(r2)
			defBody := strings.TrimSuffix(strings.TrimSpace(r2[si:]), ")")
			defs[dn] = defBody
		}
	}
	for changed := true; changed; {
		changed = false
		for dn, db := range defs {
			if containsSym(bodyS, dn) {
				bodyS = replaceSym(bodyS, dn, db)
				changed = true
			}
		}
	}
	var res string
	if forall {
		res = fmt.Sprintf("(forall ((%s %s)) (=> %s %s))", bsym, sort, rng.S, bodyS)
	} else {
		res = fmt.Sprintf("(exists ((%s %s)) (and %s %s))", bsym, sort, rng.S, bodyS)
	}
	if sort == SInt && instantiate {
		var insts []string
		for _, t := range v.instTerms() {
			b := replaceSym(bodyS, bsym, t.S)
			r := replaceSym(rng.S, bsym, t.S)
			if forall {
				insts = append(insts, fmt.Sprintf("(=> %s %s)", r, b))
			} else {
				insts = append(insts, fmt.Sprintf("(and %s %s)", r, b))
			}
		}
		if len(insts) > 0 {
			if forall && optInst {
				res = fmt.Sprintf("(and %s (govc_opt (and %s)))", res, strings.Join(insts, " "))
			} else if forall {
				res = fmt.Sprintf("(and %s %s)", res, strings.Join(insts, " "))
			} else {
				res = fmt.Sprintf("(or %s %s)", res, strings.Join(insts, " "))
			}
		}
	}
	return res
}

func defNameEnd(rest string) int {
	if strings.HasPrefix(rest, "|") {
		return strings.Index(rest[1:], "|") + 2
	}
	return strings.Index(rest, " ")
}

func sortEnd(s string) int {
	if !strings.HasPrefix(s, "(") {
		return strings.Index(s, " ")
	}
	d := 0
	for i, c := range s {
		if c == '(' {
			d++
		} else if c == ')' {
			d--
			if d == 0 {
				return i + 1
			}
		}
	}
	return len(s)
}

func isSymChar(c byte) bool {
	return c != ' ' && c != '(' && c != ')' && c != '\n'
}

func containsSym(s, name string) bool {
	for i := 0; ; {
		k := strings.Index(s[i:], name)
		if k < 0 {
			return false
		}
		k += i
		before := k == 0 || !isSymChar(s[k-1]) || name[0] == '|'
		after := k+len(name) >= len(s) || !isSymChar(s[k+len(name)]) || name[len(name)-1] == '|'
		if before && after {
			return true
		}
		i = k + 1
	}
}

func replaceSym(s, name, with string) string {
	var b strings.Builder
	for i := 0; i < len(s); {
		k := strings.Index(s[i:], name)
		if k < 0 {
			b.WriteString(s[i:])
			break
		}
		k += i
		before := k == 0 || !isSymChar(s[k-1]) || name[0] == '|'
		after := k+len(name) >= len(s) || !isSymChar(s[k+len(name)]) || name[len(name)-1] == '|'
		b.WriteString(s[i:k])
		if before && after {
			b.WriteString(with)
		} else {
			b.WriteString(name)
		}
		i = k + len(name)
	}
	return b.String()
}

func (e *specEnv) call(c SCall) specVal {
	v := e.v
	// builtin-like
	if id, ok := c.Fn.(SIdent); ok {
		switch id.Name {
		case "len":
			a := e.eval(c.Args[0])
			switch x := a.V.(type) {
			case SliceV:
				return specVal{V: Sc{x.Len}, T: types.Typ[types.Int]}
			case Sc:
				if x.T.Sort == SStr {
					return specVal{V: Sc{app(SInt, "str.len", x.T)}, T: types.Typ[types.Int]}
				}
				if mt, ok := under(a.T).(*types.Map); ok {
					return specVal{V: Sc{v.mapLen(e.st, mt, x.T)}, T: types.Typ[types.Int]}
				}
			}
			panic(specErr("len of %T", a.V))
		case "itoa":
			a := e.eval(c.Args[0])
			return specVal{V: Sc{v.itoa(a.V.(Sc).T)}, T: types.Typ[types.String]}
		case "toLower", "toUpper":
			a := e.eval(c.Args[0])
			name := map[string]string{"toLower": "strings.ToLower", "toUpper": "strings.ToUpper"}[id.Name]
			fn := v.sc.DeclareFun(name, []Sort{SStr}, SStr)
			return specVal{V: Sc{app(SStr, fn, a.V.(Sc).T)}, T: types.Typ[types.String]}
		case "errmsg":
			a := e.eval(c.Args[0])
			return specVal{V: Sc{v.errMsgTerm(a.V.(IfaceV))}, T: types.Typ[types.String]}
		case "next":
			// next(x), in an iteration clause: the value of the loop-carried variable x at the end of the iteration
			if id2, ok := c.Args[0].(SIdent); ok && e.nextOf != nil {
				if nv, ok := e.nextOf[id2.Name]; ok {
					for _, b := range e.fr.fn.Blocks {
						for _, ins := range b.Instrs {
							if phi, ok := ins.(*ssa.Phi); ok && phi.Comment == id2.Name && e.loop != nil && phi.Block() == e.loop.header {
								return specVal{V: nv, T: phi.Type()}
							}
						}
					}
				}
			}
			if id2, ok := c.Args[0].(SIdent); ok && e.nextOf != nil {
				// a variable that lives in a cell (captured by a closure): its content at the end of the iteration
				for _, b := range e.fr.fn.Blocks {
					for _, ins := range b.Instrs {
						if al, ok := ins.(*ssa.Alloc); ok && al.Comment == id2.Name {
							if cell, ok := e.fr.vals[al]; ok {
								et := elemTypeOfAddr(al)
								return specVal{V: v.deref(e.st, cell, et, e.g()), T: et}
							}
						}
					}
				}
			}
			panic(specErr("next(x) wants a variable carried by the loop of an iteration clause"))
		case "hasSuffix":
			a, b := e.eval(c.Args[0]), e.eval(c.Args[1])
			return specVal{V: Sc{app(SBool, "str.suffixof", b.V.(Sc).T, a.V.(Sc).T)}, T: types.Typ[types.Bool]}
		case "hasPrefix":
			a, b := e.eval(c.Args[0]), e.eval(c.Args[1])
			return specVal{V: Sc{app(SBool, "str.prefixof", b.V.(Sc).T, a.V.(Sc).T)}, T: types.Typ[types.Bool]}
		case "contains":
			a, b := e.eval(c.Args[0]), e.eval(c.Args[1])
			return specVal{V: Sc{app(SBool, "str.contains", a.V.(Sc).T, b.V.(Sc).T)}, T: types.Typ[types.Bool]}
		case "emitted":
			lit, ok := c.Args[0].(SLit)
			if !ok || lit.Kind != "string" {
				panic(specErr("emitted() wants a string literal"))
			}
			cur := v.emitCount(e.st, lit.Val)
			base := v.emitCount(e.old, lit.Val)
			return specVal{V: Sc{Sub(cur, base)}, T: types.Typ[types.Int]}
		case "emittedHere":
			// emissions performed by this function's own statements (callees without contract do not count)
			lit, ok := c.Args[0].(SLit)
			if !ok || lit.Kind != "string" {
				panic(specErr("emittedHere() wants a string literal"))
			}
			get := func(s *State) Term {
				if t, ok := s.ghost["eh#"+lit.Val]; ok {
					return t
				}
				return tZero
			}
			return specVal{V: Sc{Sub(get(e.st), get(e.old))}, T: types.Typ[types.Int]}
		case "emittedArg":
			lit, ok := c.Args[0].(SLit)
			if !ok || lit.Kind != "string" || len(c.Args) < 3 {
				panic(specErr("emittedArg(format, n, j[, int|string]) wants a string literal first"))
			}
			n := e.eval(c.Args[1]).V.(Sc).T
			jl, ok := c.Args[2].(SLit)
			if !ok || jl.Kind != "int" {
				panic(specErr("emittedArg: operand index must be an integer literal"))
			}
			var j int
			fmt.Sscanf(jl.Val, "%d", &j)
			so := SStr
			var ty types.Type = types.Typ[types.String]
			if len(c.Args) > 3 {
				if id, ok := c.Args[3].(SIdent); ok && id.Name == "int" {
					so, ty = SInt, types.Typ[types.Int]
				}
			}
			if t, ok := e.st.ghost[eaKey(lit.Val, j)]; ok {
				so = Sort(string(t.Sort)[len("(Array Int ") : len(t.Sort)-1])
				if so == SInt {
					ty = types.Typ[types.Int]
				} else {
					ty = types.Typ[types.String]
				}
			}
			base := v.emitCount(e.old, lit.Val)
			arr := v.emitArr(e.st, lit.Val, j, so)
			return specVal{V: Sc{Select(arr, Add(base, n), so)}, T: ty}
		case "lastArg":
			callee := e.resolveFuncRef(c.Args[0])
			il, ok := c.Args[1].(SLit)
			if callee == nil || !ok || il.Kind != "int" {
				panic(specErr("lastArg(f, i): cannot resolve function %v or operand index", c.Args[0]))
			}
			var ai int
			fmt.Sscanf(il.Val, "%d", &ai)
			if !v.w.Contracts.argObserved(FuncKey(callee)) {
				panic(specErr("lastArg(): %s is not declared with 'observe-args'", FuncKey(callee)))
			}
			if ai >= len(callee.Params) {
				panic(specErr("lastArg(): %s has no operand %d", FuncKey(callee), ai))
			}
			at := callee.Params[ai].Type()
			sorts := flatSorts(at)
			ts := make([]Term, len(sorts))
			for i, so := range sorts {
				t, ok := e.st.ghost[fmt.Sprintf("arg#%s#%d#%d", FuncKey(callee), ai, i)]
				if !ok || t.Sort != so {
					t = v.sc.Fresh("noarg", so)
				}
				ts[i] = t
			}
			val, _ := unflatten(at, ts)
			return specVal{V: val, T: at}
		case "lastResult":
			callee := e.resolveFuncRef(c.Args[0])
			if callee == nil {
				panic(specErr("lastResult(): cannot resolve function %v", c.Args[0]))
			}
			res := callee.Signature.Results()
			var rt types.Type = res
			if res.Len() == 1 {
				rt = res.At(0).Type()
			}
			sorts := flatSorts(rt)
			ts := make([]Term, len(sorts))
			for i, so := range sorts {
				t, ok := e.st.ghost[fmt.Sprintf("res#%s#%d", FuncKey(callee), i)]
				if !ok || t.Sort != so {
					t = v.sc.Fresh("nores", so)
				}
				ts[i] = t
			}
			val, _ := unflatten(rt, ts)
			return specVal{V: val, T: rt}
		case "called", "errSeen":
			callee := e.resolveFuncRef(c.Args[0])
			if callee == nil {
				// a function-typed parameter of the function under contract: calls through it are observed too
				if pid, ok := c.Args[0].(SIdent); ok {
					for _, p := range e.fr.fn.Params {
						if _, isSig := under(p.Type()).(*types.Signature); isSig && p.Name() == pid.Name {
							return specVal{V: Sc{e.st.ghostGet(id.Name + "#param:" + p.Name())}, T: types.Typ[types.Bool]}
						}
					}
				}
			}
			if callee == nil {
				panic(specErr("%s(): cannot resolve function %v", id.Name, c.Args[0]))
			}
			return specVal{V: Sc{e.st.ghostGet(id.Name + "#" + FuncKey(callee))}, T: types.Typ[types.Bool]}
		case "calls":
			// calls(f): the number of direct calls of f made so far by the function under contract
			callee := e.resolveFuncRef(c.Args[0])
			if callee == nil {
				// calls through a function-typed parameter of the function under contract are counted too
				if pid, ok := c.Args[0].(SIdent); ok {
					for _, p := range e.fr.fn.Params {
						if _, isSig := under(p.Type()).(*types.Signature); isSig && p.Name() == pid.Name {
							n := tZero
							if t, ok := e.st.ghost["count#param:"+p.Name()]; ok {
								n = t
							}
							return specVal{V: Sc{n}, T: types.Typ[types.Int]}
						}
					}
				}
				panic(specErr("calls(): cannot resolve function %v", c.Args[0]))
			}
			n := tZero
			if t, ok := e.st.ghost["count#"+FuncKey(callee)]; ok {
				n = t
			}
			return specVal{V: Sc{n}, T: types.Typ[types.Int]}
		case "alive":
			// alive(p): p is nil or an object that exists in the current state (so that an object allocated later
			// is a different one); needed under quantifiers, where loaded pointers get no typing assumption
			a := e.eval(c.Args[0])
			return specVal{V: Sc{Le(a.V.(Sc).T, e.st.allocPtr)}, T: types.Typ[types.Bool]}
		case "fresh":
			// fresh(p): p was allocated during the call (not alive in the old state)
			a := e.eval(c.Args[0])
			return specVal{V: Sc{Lt(e.old.allocPtr, a.V.(Sc).T)}, T: types.Typ[types.Bool]}
		}
		if pkg := e.pkgOfFn(); pkg != nil {
			if sf := v.w.Contracts.SpecFuncs[shortPkg(pkg.Path())+"."+id.Name]; sf != nil {
				return e.specFunc(sf, c.Args)
			}
		}
		if sf := v.w.Contracts.SpecFuncs[id.Name]; sf != nil {
			return e.specFunc(sf, c.Args)
		}
	}
	// module functions / methods
	var callee *ssa.Function
	var args []specVal
	switch f := c.Fn.(type) {
	case SIdent:
		if pkg := e.pkgOfFn(); pkg != nil {
			if fo, ok := pkg.Scope().Lookup(f.Name).(*types.Func); ok {
				callee = v.w.Prog.FuncValue(fo)
			}
		}
	case SSel:
		base := func() (sv specVal) {
			defer func() {
				if r := recover(); r != nil {
					if _, ok := r.(unsupportedErr); ok {
						sv = specVal{}
						return
					}
					panic(r)
				}
			}()
			return e.eval(f.X)
		}()
		if base.Pkg != nil {
			if fo, ok := base.Pkg.Scope().Lookup(f.Name).(*types.Func); ok {
				callee = v.w.Prog.FuncValue(fo)
			}
		} else if base.T != nil {
			obj, _, indirect := types.LookupFieldOrMethod(base.T, true, nil, f.Name)
			if obj == nil {
				if n := namedOf(base.T); n != nil {
					obj, _, indirect = types.LookupFieldOrMethod(base.T, true, n.Obj().Pkg(), f.Name)
				}
			}
			_ = indirect
			if fo, ok := obj.(*types.Func); ok {
				sel := types.NewMethodSet(base.T).Lookup(fo.Pkg(), fo.Name())
				if sel == nil {
					sel = types.NewMethodSet(types.NewPointer(base.T)).Lookup(fo.Pkg(), fo.Name())
				}
				if sel != nil && kindOf(base.T) != kIface {
					callee = v.w.Prog.MethodValue(sel)
					args = append(args, base)
				} else if kindOf(base.T) == kIface {
					// interface method: uninterpreted function of the receiver
					key := typeKey(types.Unalias(base.T)) + "." + f.Name
					var avs []Val
					avs = append(avs, base.V)
					for _, a := range c.Args {
						avs = append(avs, e.eval(a).V)
					}
					sig := fo.Type().(*types.Signature)
					var rt types.Type = sig.Results()
					if sig.Results().Len() == 1 {
						rt = sig.Results().At(0).Type()
					}
					con := &Contract{Key: key, Pure: true}
					if key == "error.Error" {
						return specVal{V: Sc{v.errMsgTerm(base.V.(IfaceV))}, T: rt}
					}
					return specVal{V: v.applyIfaceContract(e.fr, e.st, con, nil, avs, nil, rt), T: rt}
				}
			}
		}
	}
	if callee == nil {
		panic(specErr("cannot resolve call %v", c.Fn))
	}
	for _, a := range c.Args {
		args = append(args, e.eval(a))
	}
	if con := v.w.Contracts.ByFunc[callee]; con != nil && con.Pure && callee.Signature.Variadic() && len(args) >= len(callee.Params)-1 {
		// f(a, b, c) for a variadic pure f: the application to the pack of those values (see applyContract)
		last := len(callee.Params) - 1
		et := under(callee.Params[last].Type()).(*types.Slice).Elem()
		if kindOf(et) == kScalar {
			var avs []Val
			for i := 0; i < last; i++ {
				avs = append(avs, e.coerce(args[i], callee.Params[i].Type()))
			}
			tv := TupleV{}
			for _, a := range args[last:] {
				tv.E = append(tv.E, e.coerce(a, et))
			}
			avs = append(avs, tv)
			res := callee.Signature.Results()
			var rt types.Type = res
			if res.Len() == 1 {
				rt = res.At(0).Type()
			}
			return specVal{V: v.pureAppNamed(callee, fmt.Sprintf("#pack%d", len(tv.E)), avs, e.st, rt, e.g()), T: rt}
		}
	}
	if len(args) != len(callee.Params) {
		panic(specErr("arity mismatch calling %s in contract", callee.Name()))
	}
	var avs []Val
	for i, a := range args {
		pt := callee.Params[i].Type()
		av := e.coerce(a, pt)
		// implicit interface conversion of arguments
		if kindOf(pt) == kIface && a.T != nil && kindOf(a.T) != kIface && !a.Nil {
			av = v.makeIface(av, a.T)
		}
		// receiver: value vs pointer adjustments
		if i == 0 && callee.Signature.Recv() != nil && a.T != nil {
			_, wantPtr := under(pt).(*types.Pointer)
			_, havePtr := under(a.T).(*types.Pointer)
			if !wantPtr && havePtr {
				av = v.deref(e.st, av, under(a.T).(*types.Pointer).Elem(), e.g())
			}
			if wantPtr && !havePtr {
				// method with pointer receiver on an addressable operand (x.f.M()): take the field's address
				if sel, ok := c.Fn.(SSel); ok {
					if fsel, ok := sel.X.(SSel); ok {
						if addr, ok := e.fieldAddress(fsel); ok {
							av = addr
						}
					}
				}
			}
		}
		avs = append(avs, av)
	}
	res := callee.Signature.Results()
	var rt types.Type = res
	if res.Len() == 1 {
		rt = res.At(0).Type()
	}
	if con := v.w.Contracts.ByFunc[callee]; con != nil && con.Pure {
		res := v.pureApp(callee, avs, e.st, rt, e.g())
		// the contract of the pure function holds for this application too (one level: no unfolding of recursion)
		if e.depth == 0 && len(con.Ensures) > 0 && e.bound == nil {
			sub := &frame{fn: callee, params: avs, depth: e.fr.depth + 1, vals: map[ssa.Value]Val{}}
			for i, p := range callee.Params {
				sub.vals[p] = avs[i]
			}
			sub.entry = e.st
			var pre []Term
			ok := true
			for _, c := range con.Requires {
				env := &specEnv{v: v, fr: sub, st: e.st, old: e.st, depth: 1}
				t, good := tryEvalBool(env, c.Expr)
				if !good {
					ok = false
					break
				}
				pre = append(pre, t)
			}
			if ok {
				for _, c := range con.Ensures {
					if v.w.mentionsCallObservers(c.Expr, con.PkgShort, 0) {
						continue
					}
					env := &specEnv{v: v, fr: sub, st: e.st, old: e.st, result: res, resType: callee.Signature.Results(), depth: 1}
					if t, good := tryEvalBool(env, c.Expr); good {
						v.sc.Assert(Implies(And(append([]Term{e.g()}, pre...)...), t))
					}
				}
			}
		}
		return specVal{V: res, T: rt}
	}
	if v.canInline(e.fr, callee) {
		tmp := e.st.clone()
		sub := &frame{fn: e.fr.fn, depth: e.fr.depth, reach: map[int]Term{0: e.g()}, curBlock: e.fr.fn.Blocks[0], curState: tmp}
		rv := v.inline(sub, tmp, callee, avs, nil, rt)
		return specVal{V: rv, T: rt}
	}
	panic(specErr("function %s used in a contract is neither pure nor inlinable", FuncKey(callee)))
}

func (e *specEnv) specFunc(sf *SpecFunc, args []SExpr) specVal {
	v := e.v
	if len(args) != len(sf.Params) {
		panic(specErr("spec func %s arity", sf.Name))
	}
	var avs []specVal
	for i, a := range args {
		av := e.eval(a)
		pt, err := v.w.resolveType(sf.Params[i].Type, e.pkgOfFn())
		if err != nil {
			panic(specErr("%v", err))
		}
		if av.Nil {
			av = specVal{V: zeroVal(pt, v.sc), T: pt}
		} else if av.T == nil || isUntyped(av.T) {
			av.T = pt
		} else if kindOf(pt) == kIface && kindOf(av.T) != kIface {
			av = specVal{V: v.makeIface(av.V, av.T), T: pt}
		}
		avs = append(avs, av)
	}
	rt, err := v.w.resolveType(sf.Ret, e.pkgOfFn())
	if err != nil {
		panic(specErr("%v", err))
	}
	if sf.Body != nil {
		n := *e
		n.bound = map[string]specVal{}
		for k, val := range e.bound {
			n.bound[k] = val
		}
		for i, p := range sf.Params {
			n.bound[p.Name] = avs[i]
		}
		r := n.eval(sf.Body)
		if r.T == nil || isUntyped(r.T) {
			r.T = rt
		}
		return r
	}
	var ts []Term
	var sorts []Sort
	for _, a := range avs {
		for _, t := range flatten(v.scalarizeVal(a.V)) {
			ts = append(ts, t)
			sorts = append(sorts, t.Sort)
		}
	}
	rs := flatSorts(rt)
	out := make([]Term, len(rs))
	for i, so := range rs {
		fn := v.sc.DeclareFun(fmt.Sprintf("spec#%s#%d", sf.Name, i), sorts, so)
		out[i] = app(so, fn, ts...)
	}
	val, _ := unflatten(rt, out)
	return specVal{V: val, T: rt}
}

// resolveFuncRef resolves `f`, `pkg.f` or `pkg/sub.f` written in a contract to a function of the program.
func (e *specEnv) resolveFuncRef(x SExpr) *ssa.Function {
	v := e.v
	var txt string
	if lit, isLit := x.(SLit); isLit && lit.Kind == "string" {
		txt = lit.Val // a function key written as a string, e.g. "dsl.(Visitor).VisitChildren"
		if f := v.w.Funcs[txt]; f != nil {
			return f
		}
		// generic instances: unique prefix match
		var found *ssa.Function
		for k, f := range v.w.Funcs {
			if strings.HasPrefix(k, txt+"[") {
				if found != nil {
					return nil
				}
				found = f
			}
		}
		return found
	}
	txt, ok := exprToTypeText(x)
	if !ok {
		return nil
	}
	if f := v.w.Funcs[txt]; f != nil {
		return f
	}
	if pkg := e.pkgOfFn(); pkg != nil {
		if f := v.w.Funcs[shortPkg(pkg.Path())+"."+txt]; f != nil {
			return f
		}
	}
	if k := strings.LastIndex(txt, "."); k > 0 {
		if p := v.w.findPackage(txt[:k]); p != nil {
			if fo, ok := p.Scope().Lookup(txt[k+1:]).(*types.Func); ok {
				return v.w.Prog.FuncValue(fo)
			}
		}
	}
	return nil
}

// fieldAddress: the address of x.f for a pointer-to-struct x (as the code would compute &x.f).
func (e *specEnv) fieldAddress(sel SSel) (Val, bool) {
	base := e.eval(sel.X)
	pt, ok := under(base.T).(*types.Pointer)
	if !ok {
		return nil, false
	}
	st, ok := under(pt.Elem()).(*types.Struct)
	if !ok {
		return nil, false
	}
	ref, ok := base.V.(Sc)
	if !ok {
		return nil, false
	}
	for i := 0; i < st.NumFields(); i++ {
		if st.Field(i).Name() == sel.Name {
			return e.v.fieldAddr(ref.T, pt.Elem(), i), true
		}
	}
	return nil, false
}

var lockedParamsCache map[string][]string

func lockedParams() map[string][]string {
	if lockedParamsCache == nil {
		lockedParamsCache = loadLock().Params
		if lockedParamsCache == nil {
			lockedParamsCache = map[string][]string{}
		}
	}
	return lockedParamsCache
}

// loopPos: a source position inside the loop (the smallest position of an instruction of its blocks)
func loopPos(fn *ssa.Function, li *loopInfo) token.Pos {
	var best token.Pos
	for _, b := range fn.Blocks {
		if !li.body[b.Index] {
			continue
		}
		for _, ins := range b.Instrs {
			if p := ins.Pos(); p.IsValid() && (!best.IsValid() || p < best) {
				best = p
			}
		}
	}
	return best
}

// loadOfNamedCell: x is `*cell` where cell is the Alloc of the local variable `name` and the cell exists in this frame
func (e *specEnv) loadOfNamedCell(x ssa.Value, name string) (Val, types.Type, ssa.Value, bool) {
	u, ok := x.(*ssa.UnOp)
	if !ok || u.Op != token.MUL {
		return nil, nil, nil, false
	}
	if fv, isFV := u.X.(*ssa.FreeVar); isFV && fv.Name() == name {
		// a captured variable: the cell belongs to the enclosing function
		cell, ok := e.fr.vals[fv]
		pt, isPtr := under(fv.Type()).(*types.Pointer)
		if !ok || !isPtr {
			return nil, nil, nil, false
		}
		return cell, pt.Elem(), fv, true
	}
	al, ok := u.X.(*ssa.Alloc)
	if !ok || al.Comment != name {
		return nil, nil, nil, false
	}
	cell, ok := e.fr.vals[al]
	if !ok {
		return nil, nil, nil, false
	}
	return cell, elemTypeOfAddr(al), al, true
}

// ---- loop-carried variables are bound by position, like parameters ----
// LOCK.json records, per function under contract and per loop, the named variables the loop carries (header phis) with
// their types. A name that a contract uses, that no longer occurs in the function, and that was the i-th carried
// variable of its type in loop n denotes the variable that is at that place now (a renamed local keeps its clauses).

func loopVarSignature(fn *ssa.Function) map[string][]string {
	if len(fn.Blocks) == 0 {
		return nil
	}
	loops := (&FnVC{}).findLoops(fn)
	out := map[string][]string{}
	for _, li := range loops {
		var names []string
		for _, ins := range li.header.Instrs {
			phi, ok := ins.(*ssa.Phi)
			if !ok {
				break
			}
			if phi.Comment == "" || phi.Comment == "rangeindex" || strings.HasPrefix(phi.Comment, "range") {
				continue
			}
			names = append(names, phi.Comment+"|"+phi.Type().String())
		}
		if len(names) > 0 {
			out[fmt.Sprint(li.ordinal)] = names
		}
	}
	return out
}

func nameOccursIn(fn *ssa.Function, name string) bool {
	for _, p := range fn.Params {
		if p.Name() == name {
			return true
		}
	}
	for _, p := range fn.FreeVars {
		if p.Name() == name {
			return true
		}
	}
	for _, b := range fn.Blocks {
		for _, ins := range b.Instrs {
			switch x := ins.(type) {
			case *ssa.Phi:
				if x.Comment == name {
					return true
				}
			case *ssa.Alloc:
				if x.Comment == name {
					return true
				}
			case *ssa.DebugRef:
				if id, ok := x.Expr.(*ast.Ident); ok && id.Name == name {
					return true
				}
			}
		}
	}
	return false
}

var renamedCache = map[string]string{}

func renamedLoopVar(fn *ssa.Function, name string) string {
	key := FuncKey(fn) + "\x00" + name
	if r, ok := renamedCache[key]; ok {
		return r
	}
	res := ""
	defer func() { renamedCache[key] = res }()
	locked := loadLock().LoopVars[FuncKey(fn)]
	if locked == nil || nameOccursIn(fn, name) {
		return ""
	}
	cur := loopVarSignature(fn)
	for ord, vars := range locked {
		for i, nt := range vars {
			parts := strings.SplitN(nt, "|", 2)
			if parts[0] != name {
				continue
			}
			// position among the carried variables of the same type
			pos := 0
			for _, other := range vars[:i] {
				if strings.HasSuffix(other, "|"+parts[1]) {
					pos++
				}
			}
			k := 0
			for _, cnt := range cur[ord] {
				cp := strings.SplitN(cnt, "|", 2)
				if cp[1] != parts[1] {
					continue
				}
				if k == pos {
					// only a name that the locked function did not have: otherwise it is another variable
					taken := false
					for _, vs := range locked {
						for _, o := range vs {
							if strings.HasPrefix(o, cp[0]+"|") {
								taken = true
							}
						}
					}
					if !taken {
						res = cp[0]
						return res
					}
				}
				k++
			}
		}
	}
	return ""
}

// reachingAtLoopHead: the SSA value that the source variable `name` holds on entry to the loop header, found by walking
// up the dominator tree to the nearest reference or phi of that variable. Refuses (nil) when another value of the
// variable could reach the header without passing through the chosen one (a merge whose phi was removed as dead).
func reachingAtLoopHead(fn *ssa.Function, header *ssa.BasicBlock, name string, fr *frame) ssa.Value {
	rv, _ := reachingAt(fn, header, false, name, fr)
	return rv
}

// reachingAt: the value of the variable on entry to block `at` (atEnd false) or when control leaves it (atEnd true)
// The second result is false when no value of the variable reaches the point at all (it is not in scope there).
func reachingAt(fn *ssa.Function, header *ssa.BasicBlock, atEnd bool, name string, fr *frame) (ssa.Value, bool) {
	isRef := func(ins ssa.Instruction) ssa.Value {
		switch x := ins.(type) {
		case *ssa.DebugRef:
			if id, ok := x.Expr.(*ast.Ident); ok && !x.IsAddr && id.Name == name {
				if ob := x.Object(); ob != nil && ob.Pkg() != nil && ob.Parent() == ob.Pkg().Scope() {
					return nil
				}
				return x.X
			}
		case *ssa.Phi:
			if x.Comment == name {
				return x
			}
		}
		return nil
	}
	var chosen ssa.Value
	first := header.Idom()
	if atEnd {
		first = header
	}
	for b := first; b != nil && chosen == nil; b = b.Idom() {
		for i := len(b.Instrs) - 1; i >= 0; i-- {
			if rv := isRef(b.Instrs[i]); rv != nil {
				chosen = rv
				break
			}
		}
	}
	if chosen == nil {
		return nil, false
	}
	if _, isC := chosen.(*ssa.Const); !isC {
		if _, have := fr.vals[chosen]; !have {
			return nil, true
		}
	}
	// values merged into the chosen one
	merged := map[ssa.Value]bool{}
	var walk func(x ssa.Value)
	walk = func(x ssa.Value) {
		if merged[x] {
			return
		}
		merged[x] = true
		if phi, ok := x.(*ssa.Phi); ok {
			for _, ed := range phi.Edges {
				walk(ed)
			}
		}
	}
	walk(chosen)
	var chosenBlk *ssa.BasicBlock
	if ci, ok := chosen.(ssa.Instruction); ok {
		chosenBlk = ci.Block()
	}
	reaches := func(from, to *ssa.BasicBlock) bool {
		seen := map[int]bool{}
		var dfs func(b *ssa.BasicBlock) bool
		dfs = func(b *ssa.BasicBlock) bool {
			if b == to {
				return true
			}
			if seen[b.Index] {
				return false
			}
			seen[b.Index] = true
			for _, s := range b.Succs {
				if dfs(s) {
					return true
				}
			}
			return false
		}
		return dfs(from)
	}
	for _, b := range fn.Blocks {
		for _, ins := range b.Instrs {
			rv := isRef(ins)
			if rv == nil || merged[rv] {
				continue
			}
			oi, ok := rv.(ssa.Instruction)
			if !ok {
				continue // a constant or parameter: the initial value, older than anything else
			}
			ob := oi.Block()
			if chosenBlk != nil && ob != chosenBlk && ob.Dominates(chosenBlk) {
				continue // older than the chosen value
			}
			if chosenBlk != nil && ob == chosenBlk {
				continue // same block: the walk took the last reference in it
			}
			if !reaches(ob, header) {
				continue // defined where the loop head cannot be reached from
			}
			if !atEnd && header.Dominates(ob) {
				continue // defined inside or after the loop: not a value on entry
			}
			if atEnd && ob == header {
				continue // same block as the exit: the walk took the last reference in it
			}
			return nil, true
		}
	}
	return chosen, true
}
