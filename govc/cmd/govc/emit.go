package main

import (
	"os"
	"fmt"
	"go/constant"
	"go/types"
	"sort"
	"strings"

	"golang.org/x/tools/go/ssa"
)

// Emission events. Generators print target-language text through fmt.Fprintf / WriteString(ln) on an
// IndentedWriter. The verifier keeps, per format literal F, a ghost counter ec#F (how often F was emitted on
// this path) and ghost argument arrays ea#F#j (the j-th operand of the n-th emission of F). Contracts say
// emitted(F) == n and emittedArg(F, n, j) == term. Formats that a contract does not mention are ignored, so
// cosmetic edits of banners and comments cannot raise an alarm.

const dynFormat = "<dynamic>"

func ecKey(f string) string        { return "ec#" + f }
func eaKey(f string, j int) string { return fmt.Sprintf("ea#%s#%d", f, j) }

func (v *FnVC) emitCount(st *State, f string) Term {
	if t, ok := st.ghost[ecKey(f)]; ok {
		return t
	}
	return tZero
}

func (v *FnVC) emitArr(st *State, f string, j int, so Sort) Term {
	if t, ok := st.ghost[eaKey(f, j)]; ok {
		return t
	}
	return v.sc.DeclareConst(fmt.Sprintf("ea0#%s#%d#%s", f, j, so), arrSort(so))
}

// emit records one emission event of format f with the given operand terms.
func (v *FnVC) emit(st *State, f string, args []Term) {
	n := v.emitCount(st, f)
	for j, a := range args {
		arr := v.emitArr(st, f, j, a.Sort)
		if arr.Sort != arrSort(a.Sort) {
			continue // operand sort differs between sites: not tracked
		}
		st.ghost[eaKey(f, j)] = v.sc.Define("ea", Store(arr, n, a))
	}
	st.ghost[ecKey(f)] = v.sc.Define("ec", Add(n, IntLit(1)))
	// direct emissions by the function's own code (never disturbed by callees)
	hk := "eh#" + f
	hn := tZero
	if t, ok := st.ghost[hk]; ok {
		hn = t
	}
	st.ghost[hk] = v.sc.Define("eh", Add(hn, IntLit(1)))
	if v.seenFormats == nil {
		v.seenFormats = map[string]bool{}
	}
	v.seenFormats[f] = true
}

// havocEmits: after a call that may emit the given formats (nil = unknown: every format seen so far and every
// format mentioned by the contract), their counters only grow.
func (v *FnVC) havocEmits(st *State, formats map[string]bool, top bool) {
	var fs []string
	for f := range formats {
		fs = append(fs, f)
	}
	for f := range v.extraFormats {
		fs = append(fs, f)
	}
	if top {
		if os.Getenv("GOVC_TRACE_EMIT") != "" {
			fmt.Fprintf(os.Stderr, "havocEmits(top) in %s at %v\n", FuncKey(v.fn), v.curInsDesc())
		}
		for k := range st.ghost {
			if strings.HasPrefix(k, "ec#") {
				fs = append(fs, strings.TrimPrefix(k, "ec#"))
			}
		}
		for f := range v.contractFormats() {
			fs = append(fs, f)
		}
	}
	sort.Strings(fs)
	done := map[string]bool{}
	for _, f := range fs {
		if done[f] {
			continue
		}
		done[f] = true
		old := v.emitCount(st, f)
		n := v.sc.Fresh("ec", SInt)
		v.sc.Assert(Le(old, n))
		st.ghost[ecKey(f)] = n
		var keys []string
		for k := range st.ghost {
			if strings.HasPrefix(k, "ea#"+f+"#") {
				keys = append(keys, k)
			}
		}
		sort.Strings(keys)
		for _, k := range keys {
			prev := st.ghost[k]
			na := v.sc.Fresh("ea", prev.Sort)
			inner := Sort(string(prev.Sort)[len("(Array Int ") : len(prev.Sort)-1])
			// operands of earlier emissions are kept (ground instances for the first emissions: contracts refer to
			// emissions by small constant ordinals; no quantifier, so cover queries stay decidable)
			for k := 0; k < 8; k++ {
				kk := IntLit(int64(k))
				v.sc.Assert(Implies(Lt(kk, old), Eq(Select(na, kk, inner), Select(prev, kk, inner))))
			}
			if !isLit(old) {
				// ... and relative to a symbolic base (callee-relative ordinals)
				for k := 1; k <= 6; k++ {
					idx := Sub(old, IntLit(int64(k)))
					v.sc.Assert(Implies(Le(tZero, idx), Eq(Select(na, idx, inner), Select(prev, idx, inner))))
				}
			}
			_ = inner
			st.ghost[k] = na
		}
	}
}

// contractFormats: format literals mentioned by emitted()/emittedArg() in the function's own contract.
func (v *FnVC) contractFormats() map[string]bool {
	if v.conFormats != nil {
		return v.conFormats
	}
	v.conFormats = formatsOfContract(v.con)
	// a literal that no statement of the module prints can only be a misspelt contract (e.g. a missing "\n" for
	// WriteStringln): refuse it instead of counting an event that never happens
	if len(v.conFormats) > 0 {
		known := v.w.mods.allFormats()
		for f := range v.conFormats {
			if !known[f] {
				panic(unsupported("contract of %s names the format literal %q, which no statement of the module prints", FuncKey(v.fn), f))
			}
		}
	}
	return v.conFormats
}

func (mi *ModInfo) allFormats() map[string]bool {
	if mi.allFmts != nil {
		return mi.allFmts
	}
	if mi.emits == nil {
		mi.computeEmits()
	}
	mi.allFmts = map[string]bool{}
	for _, es := range mi.emits {
		for f := range es.fs {
			mi.allFmts[f] = true
		}
	}
	return mi.allFmts
}

func formatsOfContract(con *Contract) map[string]bool {
	out := map[string]bool{}
	if con == nil {
		return out
	}
	v := &struct{ conFormats map[string]bool; con *Contract }{out, con}
	var walk func(e SExpr)
	walk = func(e SExpr) {
		switch x := e.(type) {
		case SCall:
			if id, ok := x.Fn.(SIdent); ok && (id.Name == "emitted" || id.Name == "emittedArg") && len(x.Args) > 0 {
				if lit, ok := x.Args[0].(SLit); ok && lit.Kind == "string" {
					v.conFormats[lit.Val] = true
				}
			}
			walk(x.Fn)
			for _, a := range x.Args {
				walk(a)
			}
		case SBin:
			walk(x.L)
			walk(x.R)
		case SUn:
			walk(x.X)
		case SSel:
			walk(x.X)
		case SIdx:
			walk(x.X)
			walk(x.I)
		case SQuant:
			if x.Lo != nil {
				walk(x.Lo)
				walk(x.Hi)
			}
			walk(x.Body)
		case SOld:
			walk(x.X)
		case SIte:
			walk(x.C)
			walk(x.A)
			walk(x.B)
		case SAssert:
			walk(x.X)
		case STypeOf:
			walk(x.X)
		}
	}
	for _, c := range v.con.Ensures {
		walk(c.Expr)
	}
	for _, cs := range v.con.Invariants {
		for _, c := range cs {
			walk(c.Expr)
		}
	}
	for _, cs := range v.con.Iterations {
		for _, c := range cs {
			walk(c.Expr)
		}
	}
	return out
}

func isWriterType(t types.Type) bool {
	k := typeKey(types.Unalias(t))
	return k == "*formatting.IndentedWriter" || k == "io.Writer" || k == "*bytes.Buffer" || k == "*strings.Builder"
}

// fmtOperand renders an operand for an emission event: strings as String, integers as Int, others opaque String.
func (v *FnVC) fmtOperand(fr *frame, verb byte, src ssa.Value) Term {
	orig := src
	for {
		if mi, ok := orig.(*ssa.MakeInterface); ok {
			orig = mi.X
			continue
		}
		break
	}
	val := v.value(fr, orig)
	if sc, ok := val.(Sc); ok && sc.T.Sort == SInt && !isRefType(orig.Type()) && (verb == 'd' || verb == 'v') {
		return sc.T
	}
	return v.fmtArg(fr, verb, src)
}

// emitIntrinsic handles calls that write to a generator's output. Returns (result, handled).
func (v *FnVC) emitIntrinsic(fr *frame, st *State, callee *ssa.Function, args []Val, x ssa.CallInstruction) (Val, bool) {
	name := callee.String()
	c := x.Common()
	reach := fr.reach[fr.curBlock.Index]
	resT := c.Signature().Results()
	var rt types.Type = resT
	if resT.Len() == 1 {
		rt = resT.At(0).Type()
	}
	ret := func() Val {
		if resT.Len() == 0 {
			return TupleV{}
		}
		return v.freshTyped("ret.emit", rt, st, reach)
	}
	strArg := func(a ssa.Value) (string, Term, bool) {
		if k, ok := a.(*ssa.Const); ok && k.Value != nil && k.Value.Kind() == constant.String {
			return constant.StringVal(k.Value), Term{}, true
		}
		if sc, ok := v.value(fr, a).(Sc); ok && sc.T.Sort == SStr {
			return "", sc.T, false
		}
		return "", v.sc.Fresh("dynstr", SStr), false
	}
	if strings.HasPrefix(name, "github.com/microsoft/yardl/tooling/internal/formatting.Delimited[") {
		if res, ok := v.delimited(fr, st, args, x); ok {
			return res, true
		}
		return nil, false
	}
	switch name {
	case "fmt.Fprintf":
		if !isWriterType(writerOperandType(c.Args[0])) {
			return nil, false
		}
		fc, ok := c.Args[1].(*ssa.Const)
		srcs, ok2 := varargSources(c.Args[2])
		if !ok || fc.Value == nil || !ok2 {
			v.emit(st, dynFormat, nil)
			return ret(), true
		}
		f := constant.StringVal(fc.Value)
		verbs := formatVerbs(f)
		if len(verbs) != len(srcs) {
			v.emit(st, f, nil)
			return ret(), true
		}
		var ts []Term
		for i, s := range srcs {
			ts = append(ts, v.fmtOperand(fr, verbs[i], s))
		}
		v.emit(st, f, ts)
		return ret(), true
	case "fmt.Fprintln", "fmt.Fprint":
		if !isWriterType(writerOperandType(c.Args[0])) {
			return nil, false
		}
		srcs, ok := varargSources(c.Args[1])
		if ok && len(srcs) == 1 {
			orig := srcs[0]
			if mi, isMI := orig.(*ssa.MakeInterface); isMI {
				orig = mi.X
			}
			if lit, _, isLit := strArg(orig); isLit {
				if name == "fmt.Fprintln" {
					lit += "\n"
				}
				v.emit(st, lit, nil)
				return ret(), true
			}
		}
		v.emit(st, dynFormat, nil)
		return ret(), true
	case "(*github.com/microsoft/yardl/tooling/internal/formatting.IndentedWriter).WriteString",
		"(*github.com/microsoft/yardl/tooling/internal/formatting.IndentedWriter).WriteStringln":
		lit, t, isLit := strArg(c.Args[1])
		if isLit {
			if strings.HasSuffix(name, "ln") {
				lit += "\n"
			}
			v.emit(st, lit, nil)
		} else {
			v.emit(st, dynFormat, []Term{t})
		}
		return ret(), true
	case "(*github.com/microsoft/yardl/tooling/internal/formatting.IndentedWriter).Indented":
		v.emit(st, "<indent>", nil)
		fv, ok := args[1].(FuncV)
		if ok && fv.Fn != nil && v.canInline(fr, fv.Fn) {
			v.inline(fr, st, fv.Fn, nil, fv.Bind, types.NewTuple())
		} else if ok && fv.Fn != nil {
			// closure with loops (or too large): its own contract, else unknown emissions
			if con := v.w.Contracts.ByFunc[fv.Fn]; con != nil && !con.SafeOnly {
				v.applyContract(fr, st, con, fv.Fn, nil, fv.Bind, x, types.NewTuple())
			} else {
				v.withLocalFrame(fr, st, func() { v.applyMods(st, v.w.mods.Of(fv.Fn)) })
				v.bumpAlloc(st, reach)
				fm, top := v.w.mods.MayEmit(fv.Fn)
				v.havocEmits(st, fm, top)
			}
		} else {
			v.withLocalFrame(fr, st, func() { v.he.havocAll(st) })
			v.havocEmits(st, nil, true)
		}
		v.emit(st, "<dedent>", nil)
		return TupleV{}, true
	}
	return nil, false
}

func writerOperandType(a ssa.Value) types.Type {
	if mi, ok := a.(*ssa.MakeInterface); ok {
		return mi.X.Type()
	}
	if ci, ok := a.(*ssa.ChangeInterface); ok {
		return ci.X.Type()
	}
	return a.Type()
}

func formatVerbs(f string) []byte {
	var out []byte
	for i := 0; i < len(f); i++ {
		if f[i] != '%' {
			continue
		}
		i++
		if i >= len(f) {
			return nil
		}
		if f[i] == '%' {
			continue
		}
		for i < len(f) && strings.ContainsRune("+-# 0123456789.", rune(f[i])) {
			i++
		}
		if i >= len(f) {
			return nil
		}
		out = append(out, f[i])
	}
	return out
}

// ---- which formats may a function emit (transitively)? ----

type emitSet struct {
	top bool
	fs  map[string]bool
}

func (mi *ModInfo) computeEmits() {
	mi.emits = map[*ssa.Function]*emitSet{}
	for _, f := range mi.w.AllFns {
		if !mi.w.InModule(f) || len(f.Blocks) == 0 {
			continue
		}
		es := &emitSet{fs: map[string]bool{}}
		for _, b := range f.Blocks {
			for _, ins := range b.Instrs {
				ci, ok := ins.(ssa.CallInstruction)
				if !ok {
					continue
				}
				c := ci.Common()
				cal := c.StaticCallee()
				if cal == nil {
					continue
				}
				switch cal.String() {
				case "fmt.Fprintf":
					if k, ok := c.Args[1].(*ssa.Const); ok && k.Value != nil {
						es.fs[constant.StringVal(k.Value)] = true
					} else {
						es.fs[dynFormat] = true
					}
				case "fmt.Fprintln", "fmt.Fprint":
					srcs, ok := varargSources(c.Args[1])
					lit := ""
					isLit := false
					if ok && len(srcs) == 1 {
						o := srcs[0]
						if m, isMI := o.(*ssa.MakeInterface); isMI {
							o = m.X
						}
						if k, ok := o.(*ssa.Const); ok && k.Value != nil && k.Value.Kind() == constant.String {
							lit, isLit = constant.StringVal(k.Value), true
						}
					}
					if isLit {
						if cal.String() == "fmt.Fprintln" {
							lit += "\n"
						}
						es.fs[lit] = true
					} else {
						es.fs[dynFormat] = true
					}
				case "(*github.com/microsoft/yardl/tooling/internal/formatting.IndentedWriter).WriteString",
					"(*github.com/microsoft/yardl/tooling/internal/formatting.IndentedWriter).WriteStringln":
					if k, ok := c.Args[1].(*ssa.Const); ok && k.Value != nil {
						lit := constant.StringVal(k.Value)
						if strings.HasSuffix(cal.String(), "ln") {
							lit += "\n"
						}
						es.fs[lit] = true
					} else {
						es.fs[dynFormat] = true
					}
				case "(*github.com/microsoft/yardl/tooling/internal/formatting.IndentedWriter).Indented":
					es.fs["<indent>"] = true
					es.fs["<dedent>"] = true
				case "(*github.com/microsoft/yardl/tooling/internal/formatting.IndentedWriter).Write", "io.WriteString":
					es.top = true
				}
			}
		}
		mi.emits[f] = es
	}
	for changed := true; changed; {
		changed = false
		for f, es := range mi.emits {
			if es.top {
				continue
			}
			n := mi.w.CG.Nodes[f]
			if n == nil {
				continue
			}
			for _, e := range n.Out {
				cal := e.Callee.Func
				// the writer's own methods are the emission primitives (handled above), not callees to follow
				if strings.Contains(cal.String(), "formatting.IndentedWriter)") {
					continue
				}
				ces, ok := mi.emits[cal]
				if !ok {
					continue
				}
				if e.Site != nil {
					sc := e.Site.Common()
					if mi.w.IsParametric(f) && sc.StaticCallee() == nil && !sc.IsInvoke() {
						continue
					}
				}
				if ces.top {
					es.top = true
					changed = true
					break
				}
				for k := range ces.fs {
					if !es.fs[k] {
						es.fs[k] = true
						changed = true
					}
				}
			}
			// callbacks handed to parametric functions
			for _, b := range f.Blocks {
				for _, ins := range b.Instrs {
					ci, ok := ins.(ssa.CallInstruction)
					if !ok {
						continue
					}
					sc := ci.Common()
					if st := sc.StaticCallee(); st != nil && (mi.w.IsParametric(st) || strings.HasSuffix(st.String(), "IndentedWriter).Indented")) {
						targets, ok := funcArgTargets(sc, f, mi.w)
						if !ok && !es.top {
							es.top = true
							changed = true
						}
						for _, t := range targets {
							if tes, ok := mi.emits[t]; ok {
								if tes.top && !es.top {
									es.top = true
									changed = true
								}
								for k := range tes.fs {
									if !es.fs[k] {
										es.fs[k] = true
										changed = true
									}
								}
							}
						}
					}
				}
			}
		}
	}
}

// MayEmit: formats the function may emit; top = unknown.
func (mi *ModInfo) MayEmit(f *ssa.Function) (map[string]bool, bool) {
	if mi.emits == nil {
		mi.computeEmits()
	}
	if es, ok := mi.emits[f]; ok {
		return es.fs, es.top
	}
	if !mi.w.InModule(f) {
		return nil, false // library functions do not write to generator output
	}
	return nil, true
}

func isLit(t Term) bool {
	_, ok := smallLit(t)
	return ok
}

// delimited models formatting.Delimited(w, sep, items, action) through the contract of the action closure:
// the action runs once per item, in order; the separator is printed between items. For every format F for
// which the action's contract says `emitted(F) == n` (n a literal), the counter grows by len(items)*n and the
// action's postconditions hold for every k (ordinals relative to the k-th application).
func (v *FnVC) delimited(fr *frame, st *State, args []Val, x ssa.CallInstruction) (Val, bool) {
	c := x.Common()
	reach := fr.reach[fr.curBlock.Index]
	items, ok := args[2].(SliceV)
	if !ok {
		return nil, false
	}
	fv, ok := args[3].(FuncV)
	if !ok || fv.Fn == nil {
		return nil, false
	}
	con := v.w.Contracts.ByFunc[fv.Fn]
	if con == nil || len(con.Ensures) == 0 {
		return nil, false
	}
	perCall := map[string]int64{}
	for _, cl := range con.Ensures {
		collectEmitCounts(cl.Expr, perCall)
	}
	formats := formatsOfContract(con)
	for f := range formats {
		if _, ok := perCall[f]; !ok {
			return nil, false // the contract must fix how often each format it talks about is printed per call
		}
	}
	// separator
	if k, ok := c.Args[1].(*ssa.Const); ok && k.Value != nil && k.Value.Kind() == constant.String {
		sep := constant.StringVal(k.Value)
		old := v.emitCount(st, sep)
		n := v.sc.Fresh("ec", SInt)
		v.sc.Assert(Implies(reach, Eq(n, Add(old, Ite(Lt(tZero, items.Len), Sub(items.Len, IntLit(1)), tZero)))))
		st.ghost[ecKey(sep)] = n
	} else {
		v.havocEmits(st, map[string]bool{dynFormat: true}, false)
	}
	// heap effect of the action (any number of applications)
	pre := st.clone()
	v.withLocalFrame(fr, st, func() { v.applyMods(st, v.w.mods.Of(fv.Fn)) })
	v.bumpAlloc(st, reach)
	// emissions of formats the action may print but its contract does not mention: unknown growth
	mayf, top := v.w.mods.MayEmit(fv.Fn)
	other := map[string]bool{}
	for f := range mayf {
		if !formats[f] {
			other[f] = true
		}
	}
	v.havocEmits(st, other, top)
	// formats under contract
	bases := map[string]Term{}
	var fnames []string
	for f := range formats {
		fnames = append(fnames, f)
	}
	sort.Strings(fnames)
	for _, f := range fnames {
		base := v.emitCount(st, f)
		bases[f] = base
		total := v.sc.Define("ec", Add(base, app(SInt, "*", items.Len, IntLit(perCall[f]))))
		st.ghost[ecKey(f)] = total
		// fresh operand arrays that keep the earlier entries
		var keys []string
		for k := range st.ghost {
			if strings.HasPrefix(k, "ea#"+f+"#") {
				keys = append(keys, k)
			}
		}
		sort.Strings(keys)
		for _, k := range keys {
			prev := st.ghost[k]
			na := v.sc.Fresh("ea", prev.Sort)
			inner := Sort(string(prev.Sort)[len("(Array Int ") : len(prev.Sort)-1])
			for j := 0; j < 8; j++ {
				jj := IntLit(int64(j))
				v.sc.Assert(Implies(Lt(jj, base), Eq(Select(na, jj, inner), Select(prev, jj, inner))))
			}
			st.ghost[k] = na
		}
	}
	// the action's postconditions for an arbitrary k
	v.sc.nfresh++
	ksym := sym(fmt.Sprintf("q.delim!%d", v.sc.nfresh))
	k := Term{ksym, SInt}
	rng := And(Le(tZero, k), Lt(k, items.Len))
	et := under(c.Args[2].Type()).(*types.Slice).Elem()
	for _, cl := range con.Ensures {
		cl := cl
		q := v.underBinder(ksym, SInt, rng, true, false, func() Term {
			// states as seen by the k-th application
			stK, oldK := st.clone(), st.clone()
			for _, f := range fnames {
				n := IntLit(perCall[f])
				oldK.ghost[ecKey(f)] = Add(bases[f], app(SInt, "*", k, n))
				stK.ghost[ecKey(f)] = Add(bases[f], app(SInt, "*", Add(k, IntLit(1)), n))
			}
			var item Val
			switch kindOf(et) {
			case kStruct:
				item = v.loadStruct(pre, v.elemAddr(et, items.Arr, Add(items.Off, k)), et, tTrue)
			default:
				item = v.loadLoc(pre, Loc{Kind: locElem, Base: items.Arr, Idx: Add(items.Off, k), T: et}, tTrue)
			}
			sub := &frame{fn: fv.Fn, depth: fr.depth + 1, vals: map[ssa.Value]Val{}, params: []Val{args[0], Sc{k}, item}, freeVars: fv.Bind}
			for i, p := range fv.Fn.Params {
				sub.vals[p] = sub.params[i]
			}
			for i, p := range fv.Fn.FreeVars {
				if i < len(fv.Bind) {
					sub.vals[p] = fv.Bind[i]
				}
			}
			sub.entry = pre
			env := &specEnv{v: v, fr: sub, st: stK, old: oldK, result: TupleV{}, resType: types.NewTuple()}
			env.guard = rng
			if t, ok := tryEvalBool(env, cl.Expr); ok {
				return t
			}
			return tTrue
		})
		v.sc.Assert(Implies(reach, Term{q, SBool}))
	}
	if fr.top || fr.own {
		v.addObl("CANARY", "false-after-Delimited", x.Pos(), reach, tTrue, nil, "notunsat")
	}
	return TupleV{}, true
}

// collectEmitCounts finds conjuncts `emitted("F") == n` with a literal n.
func collectEmitCounts(e SExpr, out map[string]int64) {
	b, ok := e.(SBin)
	if !ok {
		return
	}
	if b.Op == "&&" {
		collectEmitCounts(b.L, out)
		collectEmitCounts(b.R, out)
		return
	}
	if b.Op != "==" {
		return
	}
	call, ok := b.L.(SCall)
	lit, ok2 := b.R.(SLit)
	if !ok || !ok2 || lit.Kind != "int" {
		return
	}
	id, ok := call.Fn.(SIdent)
	if !ok || id.Name != "emitted" || len(call.Args) != 1 {
		return
	}
	f, ok := call.Args[0].(SLit)
	if !ok || f.Kind != "string" {
		return
	}
	var n int64
	fmt.Sscanf(lit.Val, "%d", &n)
	out[f.Val] = n
}

func (v *FnVC) curInsDesc() string {
	if v.top != nil && v.top.curIns != nil {
		return fmt.Sprintf("%s @%s", v.top.curIns.String(), v.w.Fset.Position(v.top.curIns.Pos()))
	}
	return "?"
}
