package main

import (
	"fmt"
	"go/constant"
	"go/types"
	"strings"

	"golang.org/x/tools/go/ssa"
)

// varargSources returns the SSA values stored into a varargs pack (`new [k]any` + stores + slice).
func varargSources(x ssa.Value) ([]ssa.Value, bool) {
	if c, ok := x.(*ssa.Const); ok && c.Value == nil {
		return nil, true // nil slice: no arguments
	}
	sl, ok := x.(*ssa.Slice)
	if !ok || sl.Low != nil || sl.High != nil {
		return nil, false
	}
	al, ok := sl.X.(*ssa.Alloc)
	if !ok {
		return nil, false
	}
	at, ok := under(elemTypeOfAddr(al)).(*types.Array)
	if !ok {
		return nil, false
	}
	out := make([]ssa.Value, at.Len())
	for _, r := range *al.Referrers() {
		ia, ok := r.(*ssa.IndexAddr)
		if !ok {
			continue
		}
		ic, ok := ia.Index.(*ssa.Const)
		if !ok {
			return nil, false
		}
		k, _ := constant.Int64Val(ic.Value)
		for _, r2 := range *ia.Referrers() {
			if st, ok := r2.(*ssa.Store); ok && st.Addr == ia {
				if out[k] != nil {
					return nil, false
				}
				out[k] = st.Val
			}
		}
	}
	for _, o := range out {
		if o == nil {
			return nil, false
		}
	}
	return out, true
}

func (v *FnVC) itoa(x Term) Term {
	return Ite(Lt(x, tZero), app(SStr, "str.++", StrLit("-"), app(SStr, "str.from_int", app(SInt, "-", x))), app(SStr, "str.from_int", x))
}

func (v *FnVC) errMsgTerm(iv IfaceV) Term {
	fn := v.sc.DeclareFun("ifn#error.Error#0", []Sort{SInt, SInt}, SStr)
	return app(SStr, fn, iv.Tag, iv.Ref)
}

// fmtArg renders one formatted operand.
func (v *FnVC) fmtArg(fr *frame, verb byte, src ssa.Value) Term {
	// look through MakeInterface / ChangeInterface to the static type
	orig := src
	for {
		if mi, ok := orig.(*ssa.MakeInterface); ok {
			orig = mi.X
			continue
		}
		if ci, ok := orig.(*ssa.ChangeInterface); ok {
			orig = ci.X
			continue
		}
		break
	}
	val := v.value(fr, orig)
	t := orig.Type()
	if verb == 'T' {
		fn := v.sc.DeclareFun("fmt.typename", []Sort{SInt}, SStr)
		if iv, ok := val.(IfaceV); ok {
			return app(SStr, fn, iv.Tag)
		}
		return app(SStr, fn, v.tagOf(t))
	}
	if sc, ok := val.(Sc); ok && kindOf(t) == kScalar {
		// a named type with a String()/Error() method formats through it; plain kinds format directly
		hasStringer := false
		if ms := types.NewMethodSet(t); ms.Lookup(nil, "String") != nil || ms.Lookup(nil, "Error") != nil {
			hasStringer = true
		}
		if !hasStringer {
			switch sc.T.Sort {
			case SStr:
				if verb == 's' || verb == 'v' {
					return sc.T
				}
				if verb == 'q' {
					fn := v.sc.DeclareFun("fmt.quote", []Sort{SStr}, SStr)
					return app(SStr, fn, sc.T)
				}
			case SInt:
				if !isRefType(t) && (verb == 'd' || verb == 'v') {
					return v.itoa(sc.T)
				}
			case SBool:
				if verb == 't' || verb == 'v' {
					return Ite(sc.T, StrLit("true"), StrLit("false"))
				}
			}
		}
	}
	if iv, ok := val.(IfaceV); ok && (verb == 's' || verb == 'v') {
		if it, isI := under(t).(*types.Interface); isI {
			if types.NewMethodSet(t).Lookup(nil, "Error") != nil && it.NumMethods() == 1 {
				return v.errMsgTerm(iv)
			}
		}
	}
	// opaque rendering: a function of the verb and the value
	var ts []Term
	var sorts []Sort
	for _, c := range flatten(v.scalarizeVal(val)) {
		ts = append(ts, c)
		sorts = append(sorts, c.Sort)
	}
	fn := v.sc.DeclareFun(fmt.Sprintf("fmt.%c#%s", verb, typeKey(t)), sorts, SStr)
	v.note("formatting of non-basic operands is an uninterpreted function of the operand value (heap-independent)")
	return app(SStr, fn, ts...)
}

// sprintf builds the string for a constant format; ok=false when the shape is not recognised.
func (v *FnVC) sprintf(fr *frame, format ssa.Value, pack ssa.Value) (Term, bool) {
	fc, ok := format.(*ssa.Const)
	if !ok || fc.Value == nil || fc.Value.Kind() != constant.String {
		return Term{}, false
	}
	srcs, ok := varargSources(pack)
	if !ok {
		return Term{}, false
	}
	f := constant.StringVal(fc.Value)
	var parts []Term
	lit := strings.Builder{}
	flush := func() {
		if lit.Len() > 0 {
			parts = append(parts, StrLit(lit.String()))
			lit.Reset()
		}
	}
	ai := 0
	for i := 0; i < len(f); i++ {
		if f[i] != '%' {
			lit.WriteByte(f[i])
			continue
		}
		i++
		if i >= len(f) {
			return Term{}, false
		}
		if f[i] == '%' {
			lit.WriteByte('%')
			continue
		}
		// flags / width are not modelled
		if !strings.ContainsRune("svdqtT", rune(f[i])) {
			return Term{}, false
		}
		if ai >= len(srcs) {
			return Term{}, false
		}
		flush()
		parts = append(parts, v.fmtArg(fr, f[i], srcs[ai]))
		ai++
	}
	flush()
	if ai != len(srcs) {
		return Term{}, false
	}
	return v.concat(parts), true
}

func (v *FnVC) concat(parts []Term) Term {
	if len(parts) == 0 {
		return StrLit("")
	}
	if len(parts) == 1 {
		return parts[0]
	}
	return app(SStr, "str.++", parts...)
}

func (v *FnVC) newError(st *State, msg Term, tagType string, reach Term) Val {
	r := v.sc.Fresh("err", SInt)
	v.sc.Assert(Lt(st.allocPtr, r))
	v.sc.Assert(Lt(tZero, r))
	st.allocPtr = r
	tag := IntLit(int64(v.w.TagIDKey(tagType)))
	iv := IfaceV{tag, r}
	v.sc.Assert(Eq(v.errMsgTerm(iv), msg))
	return iv
}

func (v *FnVC) intrinsic(fr *frame, st *State, callee *ssa.Function, args []Val, x ssa.CallInstruction) (Val, bool) {
	name := callee.String()
	reach := fr.reach[fr.curBlock.Index]
	c := x.Common()
	str := func(i int) Term { return args[i].(Sc).T }
	switch name {
	case "fmt.Sprintf":
		if t, ok := v.sprintf(fr, c.Args[0], c.Args[1]); ok {
			return Sc{v.sc.Define("sprintf", t)}, true
		}
		return Sc{v.sc.Fresh("sprintf", SStr)}, true
	case "fmt.Errorf":
		var msg Term
		if t, ok := v.sprintf(fr, c.Args[0], c.Args[1]); ok {
			msg = v.sc.Define("errorf", t)
		} else {
			msg = v.sc.Fresh("errorf", SStr)
		}
		return v.newError(st, msg, "*fmt.wrapError", reach), true
	case "errors.New":
		return v.newError(st, str(0), "*errors.errorString", reach), true
	case "fmt.Sprint", "fmt.Sprintln":
		return Sc{v.sc.Fresh("sprint", SStr)}, true
	case "strings.HasPrefix":
		return Sc{app(SBool, "str.prefixof", str(1), str(0))}, true
	case "strings.HasSuffix":
		return Sc{app(SBool, "str.suffixof", str(1), str(0))}, true
	case "strings.Contains":
		return Sc{app(SBool, "str.contains", str(0), str(1))}, true
	case "strings.TrimPrefix":
		s, p := str(0), str(1)
		return Sc{Ite(app(SBool, "str.prefixof", p, s), app(SStr, "str.substr", s, app(SInt, "str.len", p), Sub(app(SInt, "str.len", s), app(SInt, "str.len", p))), s)}, true
	case "strings.TrimSuffix":
		s, p := str(0), str(1)
		return Sc{Ite(app(SBool, "str.suffixof", p, s), app(SStr, "str.substr", s, tZero, Sub(app(SInt, "str.len", s), app(SInt, "str.len", p))), s)}, true
	case "strings.ReplaceAll":
		return Sc{app(SStr, "str.replace_all", str(0), str(1), str(2))}, true
	case "strings.ToLower", "strings.ToUpper", "strings.TrimSpace", "strings.Title", "strings.ToTitle":
		fn := v.sc.DeclareFun(name, []Sort{SStr}, SStr)
		r := app(SStr, fn, str(0))
		if name != "strings.TrimSpace" {
			v.sc.Assert(Implies(reach, Eq(app(SInt, "str.len", r), app(SInt, "str.len", str(0)))))
		}
		return Sc{r}, true
	case "strings.Index":
		return Sc{app(SInt, "str.indexof", str(0), str(1), tZero)}, true
	case "strings.Repeat":
		fn := v.sc.DeclareFun(name, []Sort{SStr, SInt}, SStr)
		return Sc{app(SStr, fn, str(0), args[1].(Sc).T)}, true
	case "strconv.Itoa":
		return Sc{v.itoa(args[0].(Sc).T)}, true
	case "strconv.Quote":
		fn := v.sc.DeclareFun("fmt.quote", []Sort{SStr}, SStr)
		return Sc{app(SStr, fn, str(0))}, true
	case "strings.Join":
		// value depends on the element contents: opaque but functional in (slice, sep, element array)
		sv, ok := args[0].(SliceV)
		if !ok {
			return nil, false
		}
		a := v.he.get(st, famElem(types.Typ[types.String]), arr2Sort(SStr))
		fn := v.sc.DeclareFun("strings.Join", []Sort{arrSort(SStr), SInt, SInt, SStr}, SStr)
		r := app(SStr, fn, Select(a, sv.Arr, arrSort(SStr)), sv.Off, sv.Len, str(1))
		// exact for short slices
		v.sc.Assert(Implies(And(reach, Eq(sv.Len, tZero)), Eq(r, StrLit(""))))
		v.sc.Assert(Implies(And(reach, Eq(sv.Len, IntLit(1))), Eq(r, Select(Select(a, sv.Arr, arrSort(SStr)), sv.Off, SStr))))
		return Sc{v.sc.Define("join", r)}, true
	}
	return nil, false
}
