package main

import (
	"fmt"
	"go/types"
	"sort"
	"strings"
)

// State is the symbolic heap at a program point.
type State struct {
	epoch    int
	heap     map[string]Term // array family -> current version
	allocPtr Term
	ghost    map[string]Term // ghost observers (called#f, errSeen#f): Bool terms
}

func (s *State) clone() *State {
	h := make(map[string]Term, len(s.heap))
	for k, v := range s.heap {
		h[k] = v
	}
	g := make(map[string]Term, len(s.ghost))
	for k, v := range s.ghost {
		g[k] = v
	}
	return &State{epoch: s.epoch, heap: h, allocPtr: s.allocPtr, ghost: g}
}

func (s *State) ghostGet(k string) Term {
	if t, ok := s.ghost[k]; ok {
		return t
	}
	return tFalse
}

// Heap array families:
//   F#<struct>#<field>[.comp]   Int -> sort          struct fields
//   P#<type>[.comp]             Int -> sort          boxes (*T for non-struct T)
//   E#<type>[.comp]             Int -> Int -> sort   slice / array elements
//   MD#<K>#<V>                  Int -> K -> Bool     map domains
//   MV#<K>#<V>[.comp]           Int -> K -> sort     map values
//   ML#<K>#<V>                  Int -> Int           map lengths

type freshLink struct {
	parent Term
	bound  Term // objects with 0 < ref <= bound existed before and are unchanged
}

type HeapEnv struct {
	links     map[string]freshLink // version symbol -> the version it was derived from by a fresh-only havoc
	parents   map[string][]Term    // version symbol built by store/ite -> the versions it was built from
	sc        *Script
	sorts     map[string]Sort // family -> sort
	immutable func(fam string) bool
	nver      int
	nepoch    int
}

func (h *HeapEnv) cur(st *State, fam string, so Sort) Term {
	h.sorts[fam] = so
	if h.immutable != nil && h.immutable(fam) {
		// an immutable family is never written at objects that exist already; the only versions are the
		// initialising stores of objects this activation allocated itself, which no havoc removes
		if t, ok := st.heap[fam]; ok {
			return t
		}
		return h.sc.DeclareConst(fam+"@imm", so)
	}
	if t, ok := st.heap[fam]; ok {
		return t
	}
	return h.sc.DeclareConst(fmt.Sprintf("%s@e%d", fam, st.epoch), so)
}

func (h *HeapEnv) set(st *State, fam string, t Term) {
	h.sorts[fam] = t.Sort
	h.nver++
	prev, hadPrev := st.heap[fam]
	if !hadPrev {
		prev = h.cur(st, fam, t.Sort)
	}
	n := h.sc.DefineNamed(fmt.Sprintf("%s@%d", fam, h.nver), t)
	if h.parents == nil {
		h.parents = map[string][]Term{}
	}
	h.parents[n.S] = []Term{prev}
	st.heap[fam] = n
}

func (h *HeapEnv) havocFam(st *State, fam string, so Sort) {
	h.sorts[fam] = so
	if h.immutable != nil && h.immutable(fam) {
		return
	}
	h.nver++
	st.heap[fam] = h.sc.DeclareConst(fmt.Sprintf("%s@h%d", fam, h.nver), so)
}

// havocFamFresh: the family was written only at objects allocated after `bound`; cells of older objects keep
// their value. The link is instantiated at every later read (see FnVC.linkFresh).
func (h *HeapEnv) havocFamFresh(st *State, fam string, so Sort, bound Term) {
	h.sorts[fam] = so
	if h.immutable != nil && h.immutable(fam) {
		return
	}
	prev := h.cur(st, fam, so)
	h.nver++
	n := h.sc.DeclareConst(fmt.Sprintf("%s@f%d", fam, h.nver), so)
	if h.links == nil {
		h.links = map[string]freshLink{}
	}
	h.links[n.S] = freshLink{parent: prev, bound: bound}
	st.heap[fam] = n
}

func (h *HeapEnv) havocAll(st *State) {
	h.nepoch++
	st.epoch = h.nepoch
	keep := map[string]Term{}
	if h.immutable != nil {
		for fam, t := range st.heap {
			if h.immutable(fam) {
				keep[fam] = t
			}
		}
	}
	st.heap = keep
}

func (h *HeapEnv) get(st *State, fam string, so Sort) Term { return h.cur(st, fam, so) }

// merge builds the state at a join from (edge condition, state) pairs.
func (h *HeapEnv) merge(ins []edgeState) *State {
	if len(ins) == 1 {
		return ins[0].st.clone()
	}
	for _, e := range ins {
		if e.st.ghost == nil {
			e.st.ghost = map[string]Term{}
		}
	}
	sameEpoch := true
	for _, e := range ins[1:] {
		if e.st.epoch != ins[0].st.epoch {
			sameEpoch = false
		}
	}
	out := &State{heap: map[string]Term{}}
	if sameEpoch {
		out.epoch = ins[0].st.epoch
	} else {
		h.nepoch++
		out.epoch = h.nepoch
	}
	fams := map[string]bool{}
	for _, e := range ins {
		for k := range e.st.heap {
			fams[k] = true
		}
	}
	if !sameEpoch {
		for k := range h.sorts {
			fams[k] = true
		}
	}
	var names []string
	for k := range fams {
		names = append(names, k)
	}
	sort.Strings(names)
	for _, fam := range names {
		so := h.sorts[fam]
		if h.immutable != nil && h.immutable(fam) {
			// merged like any other family when some predecessor initialised an object of its own
			any := false
			for _, e := range ins {
				if _, ok := e.st.heap[fam]; ok {
					any = true
				}
			}
			if !any {
				continue
			}
		}
		vers := make([]Term, len(ins))
		same := true
		for i, e := range ins {
			vers[i] = h.get(e.st, fam, so)
			if vers[i].S != vers[0].S {
				same = false
			}
		}
		if same {
			if _, ok := ins[0].st.heap[fam]; ok || !sameEpoch {
				out.heap[fam] = vers[0]
			}
			continue
		}
		t := vers[len(ins)-1]
		for i := len(ins) - 2; i >= 0; i-- {
			t = Ite(ins[i].cond, vers[i], t)
		}
		h.nver++
		mn := h.sc.DefineNamed(fmt.Sprintf("%s@m%d", fam, h.nver), t)
		if h.parents == nil {
			h.parents = map[string][]Term{}
		}
		h.parents[mn.S] = append([]Term(nil), vers...)
		out.heap[fam] = mn
	}
	// allocPtr
	ap := ins[len(ins)-1].st.allocPtr
	for i := len(ins) - 2; i >= 0; i-- {
		ap = Ite(ins[i].cond, ins[i].st.allocPtr, ap)
	}
	out.allocPtr = h.sc.Define("allocptr", ap)
	// ghosts
	out.ghost = map[string]Term{}
	gk := map[string]bool{}
	for _, e := range ins {
		for k := range e.st.ghost {
			gk[k] = true
		}
	}
	var gnames []string
	for k := range gk {
		gnames = append(gnames, k)
	}
	sort.Strings(gnames)
	for _, k := range gnames {
		// typed default for states that do not have the ghost yet
		var def Term
		for _, e := range ins {
			if t, ok := e.st.ghost[k]; ok {
				switch {
				case t.Sort == SBool:
					def = tFalse
				case t.Sort == SInt:
					def = tZero
				case strings.HasPrefix(string(t.Sort), "(Array Int "):
					inner := string(t.Sort)[len("(Array Int ") : len(t.Sort)-1]
					def = h.sc.DeclareConst("ea0#"+strings.TrimPrefix(k, "ea#")+"#"+inner, t.Sort)
				default:
					def = h.sc.DeclareConst("ghost0#"+k+"#"+string(t.Sort), t.Sort)
				}
				break
			}
		}
		get := func(s *State) Term {
			if t, ok := s.ghost[k]; ok {
				return t
			}
			return def
		}
		t := get(ins[len(ins)-1].st)
		for i := len(ins) - 2; i >= 0; i-- {
			t = Ite(ins[i].cond, get(ins[i].st), t)
		}
		out.ghost[k] = h.sc.Define("ghost", t)
	}
	return out
}

type edgeState struct {
	cond Term
	st   *State
}

// ---- family naming ----

func famField(skey, fname string) string { return "F#" + skey + "#" + fname }
func famBox(t types.Type) string         { return "P#" + typeKey(types.Unalias(t)) }
func famElem(t types.Type) string        { return "E#" + typeKey(types.Unalias(t)) }
func famMap(kind string, m *types.Map) string {
	return kind + "#" + typeKey(m.Key()) + "#" + typeKey(m.Elem())
}

func compSuffixes(t types.Type) []string {
	switch kindOf(t) {
	case kSlice:
		return []string{".arr", ".off", ".len"}
	case kIface:
		return []string{".tag", ".ref"}
	}
	return []string{""}
}

func famIsUnder(fam, prefix string) bool {
	return fam == prefix || strings.HasPrefix(fam, prefix+".")
}
