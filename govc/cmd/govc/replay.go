package main

import (
	"bufio"
	"bytes"
	"context"
	"encoding/json"
	"fmt"
	"go/types"
	"io"
	"os"
	"os/exec"
	"path/filepath"
	"regexp"
	"sort"
	"strconv"
	"strings"
	"time"

	"golang.org/x/tools/go/ssa"
)

// solverSession is an interactive z3 process used to read model values adaptively.
type solverSession struct {
	cmd *exec.Cmd
	in  io.WriteCloser
	out *bufio.Reader
}

func startSession(query string) (*solverSession, string, error) {
	cmd := exec.Command("z3-new", "-in", "-smt2", "-T:30")
	in, _ := cmd.StdinPipe()
	outp, _ := cmd.StdoutPipe()
	cmd.Stderr = cmd.Stdout
	if err := cmd.Start(); err != nil {
		return nil, "", err
	}
	s := &solverSession{cmd: cmd, in: in, out: bufio.NewReader(outp)}
	io.WriteString(in, query)
	line, err := s.readSexpOrLine()
	if err != nil {
		s.close()
		return nil, "", err
	}
	return s, strings.TrimSpace(line), nil
}

func (s *solverSession) close() {
	s.in.Close()
	done := make(chan bool, 1)
	go func() { s.cmd.Wait(); done <- true }()
	select {
	case <-done:
	case <-time.After(2 * time.Second):
		s.cmd.Process.Kill()
	}
}

func (s *solverSession) readSexpOrLine() (string, error) {
	var b strings.Builder
	depth := 0
	inStr := false
	started := false
	for {
		c, err := s.out.ReadByte()
		if err != nil {
			return b.String(), err
		}
		b.WriteByte(c)
		if inStr {
			if c == '"' {
				inStr = false
			}
			continue
		}
		switch c {
		case '"':
			inStr = true
			started = true
		case '(':
			depth++
			started = true
		case ')':
			depth--
		case '\n':
			if depth == 0 && started || depth == 0 && strings.TrimSpace(b.String()) != "" {
				return b.String(), nil
			}
		default:
			if c != ' ' && c != '\t' {
				started = true
			}
		}
	}
}

func (s *solverSession) getValue(term string) (string, bool) {
	io.WriteString(s.in, "(get-value ("+term+"))\n")
	r, err := s.readSexpOrLine()
	if err != nil || strings.Contains(r, "(error") {
		return "", false
	}
	r = strings.TrimSpace(r)
	// ((term value))
	r = strings.TrimPrefix(r, "((")
	r = strings.TrimSuffix(r, "))")
	// strip the echoed term: value is the suffix after the term text; z3 echoes the term as written
	if strings.HasPrefix(r, term) {
		return strings.TrimSpace(r[len(term):]), true
	}
	// fall back: last atom or parenthesised group
	if k := strings.LastIndex(r, " "); k >= 0 {
		return strings.TrimSpace(r[k:]), true
	}
	return r, true
}

func parseIntValue(s string) (int64, bool) {
	s = strings.TrimSpace(s)
	neg := false
	if strings.HasPrefix(s, "(-") {
		neg = true
		s = strings.TrimSpace(strings.TrimSuffix(strings.TrimPrefix(s, "(-"), ")"))
	}
	n, err := strconv.ParseInt(s, 10, 64)
	if err != nil {
		return 0, false
	}
	if neg {
		n = -n
	}
	return n, true
}

func parseStrValue(s string) (string, bool) {
	s = strings.TrimSpace(s)
	if len(s) < 2 || s[0] != '"' || s[len(s)-1] != '"' {
		return "", false
	}
	s = s[1 : len(s)-1]
	s = strings.ReplaceAll(s, `""`, `"`)
	re := regexp.MustCompile(`\\u\{([0-9a-fA-F]+)\}`)
	s = re.ReplaceAllStringFunc(s, func(m string) string {
		h := re.FindStringSubmatch(m)[1]
		n, _ := strconv.ParseInt(h, 16, 32)
		return string(rune(n))
	})
	return s, true
}

// inputBuilder turns a model into Go source that constructs the function's arguments.
type inputBuilder struct {
	w       *World
	v       *FnVC
	s       *solverSession
	pkg     *types.Package
	imports map[string]string // path -> name
	stmts   []string
	seen    map[string]string // "type|ref" -> variable
	nvar    int
	fail    string
	budget  int
}

func (b *inputBuilder) qual(p *types.Package) string {
	if p == b.pkg {
		return ""
	}
	b.imports[p.Path()] = p.Name()
	return p.Name()
}

func (b *inputBuilder) typeStr(t types.Type) string { return types.TypeString(t, b.qual) }

func (b *inputBuilder) intOf(t Term) (int64, bool) {
	r, ok := b.s.getValue(t.S)
	if !ok {
		return 0, false
	}
	return parseIntValue(r)
}

func (b *inputBuilder) entryArr(fam string) (string, bool) {
	for _, suffix := range []string{"@imm", "@e0"} {
		q := sym(fam + suffix)
		if b.v.sc.declrd[q] {
			return q, true
		}
	}
	return "", false
}

func exportedOrSamePkg(f *types.Var, pkg *types.Package) bool {
	return f.Exported() || f.Pkg() == pkg
}

// build returns a Go expression for a value of type t whose components are the given terms.
func (b *inputBuilder) build(t types.Type, val Val, depth int) string {
	b.budget--
	if b.budget < 0 || depth > 12 {
		return b.zero(t)
	}
	switch x := val.(type) {
	case Sc:
		switch x.T.Sort {
		case SBool:
			r, _ := b.s.getValue(x.T.S)
			return b.conv(t, strings.TrimSpace(r))
		case SStr:
			r, _ := b.s.getValue(x.T.S)
			s, ok := parseStrValue(r)
			if !ok {
				s = ""
			}
			return b.conv(t, strconv.Quote(s))
		case SFlt:
			return b.zero(t)
		}
		n, ok := b.intOf(x.T)
		if !ok {
			return b.zero(t)
		}
		switch u := under(t).(type) {
		case *types.Basic:
			return b.conv(t, strconv.FormatInt(n, 10))
		case *types.Pointer:
			if n == 0 {
				return "nil"
			}
			return b.object(u.Elem(), n, x.T, depth)
		case *types.Map:
			if n == 0 {
				return "nil"
			}
			return "make(" + b.typeStr(t) + ")"
		default:
			return "nil"
		}
	case SliceV:
		arr, ok1 := b.intOf(x.Arr)
		off, _ := b.intOf(x.Off)
		ln, ok2 := b.intOf(x.Len)
		if !ok1 || !ok2 || arr == 0 {
			return "nil"
		}
		if ln > 64 {
			b.fail = "model needs a slice longer than 64"
			ln = 64
		}
		et := under(t).(*types.Slice).Elem()
		var els []string
		for i := int64(0); i < ln; i++ {
			els = append(els, b.elem(et, x.Arr, IntLit(off+i), depth))
		}
		return b.typeStr(t) + "{" + strings.Join(els, ", ") + "}"
	case IfaceV:
		tag, ok := b.intOf(x.Tag)
		if !ok || tag == 0 {
			return "nil"
		}
		if int(tag) > len(b.w.tagTypes) || b.w.tagTypes[tag-1] == nil {
			b.fail = "model uses a dynamic type outside the closed world"
			return "nil"
		}
		ct := b.w.tagTypes[tag-1]
		if payloadIsRef(ct) {
			return b.build(ct, Sc{x.Ref}, depth+1)
		}
		return b.build(ct, b.v.unbox(ct, x.Ref), depth+1)
	case StructV:
		st := under(t).(*types.Struct)
		var fs []string
		for i, f := range x.F {
			if !exportedOrSamePkg(st.Field(i), b.pkg) {
				continue
			}
			fs = append(fs, st.Field(i).Name()+": "+b.build(st.Field(i).Type(), f, depth+1))
		}
		return b.typeStr(t) + "{" + strings.Join(fs, ", ") + "}"
	case FuncV:
		return "nil"
	}
	return b.zero(t)
}

func (b *inputBuilder) conv(t types.Type, lit string) string {
	if _, ok := t.(*types.Basic); ok {
		if bt := t.(*types.Basic); bt.Kind() == types.Int || bt.Kind() == types.String || bt.Kind() == types.Bool || bt.Info()&types.IsUntyped != 0 {
			return lit
		}
	}
	return b.typeStr(t) + "(" + lit + ")"
}

func (b *inputBuilder) zero(t types.Type) string {
	switch under(t).(type) {
	case *types.Basic:
		bt := under(t).(*types.Basic)
		switch {
		case bt.Info()&types.IsString != 0:
			return b.conv(t, `""`)
		case bt.Info()&types.IsBoolean != 0:
			return b.conv(t, "false")
		default:
			return b.conv(t, "0")
		}
	case *types.Struct:
		return b.typeStr(t) + "{}"
	}
	return "nil"
}

func (b *inputBuilder) elem(et types.Type, arr, idx Term, depth int) string {
	switch kindOf(et) {
	case kStruct:
		ref := b.v.elemAddr(et, arr, idx)
		return b.structLit(et, ref, depth+1)
	case kArray:
		return b.zero(et)
	}
	var sorts []Sort
	if kindOf(et) == kScalar || kindOf(et) == kFunc {
		sorts = []Sort{scalarSort(et)}
	} else {
		sorts = flatSorts(et)
	}
	ts := make([]Term, len(sorts))
	for i, suf := range compSuffixes(et) {
		a, ok := b.entryArr(famElem(et) + suf)
		if !ok {
			return b.zero(et)
		}
		ts[i] = Term{fmt.Sprintf("(select (select %s %s) %s)", a, arr.S, idx.S), sorts[i]}
	}
	val, _ := unflatten(et, ts)
	return b.build(et, val, depth+1)
}

func (b *inputBuilder) fieldVal(structT types.Type, i int, ref Term, depth int) (string, bool) {
	st := under(structT).(*types.Struct)
	ft := st.Field(i).Type()
	sk := structKey(structT)
	switch kindOf(ft) {
	case kStruct:
		return b.structLit(ft, b.v.subAddr(sk, st.Field(i).Name(), ref), depth+1), true
	case kArray:
		return "", false
	}
	var sorts []Sort
	if kindOf(ft) == kScalar || kindOf(ft) == kFunc {
		sorts = []Sort{scalarSort(ft)}
	} else {
		sorts = flatSorts(ft)
	}
	ts := make([]Term, len(sorts))
	for k, suf := range compSuffixes(ft) {
		a, ok := b.entryArr(famField(sk, st.Field(i).Name()) + suf)
		if !ok {
			return "", false
		}
		ts[k] = Term{fmt.Sprintf("(select %s %s)", a, ref.S), sorts[k]}
	}
	val, _ := unflatten(ft, ts)
	return b.build(ft, val, depth+1), true
}

func (b *inputBuilder) structLit(t types.Type, ref Term, depth int) string {
	st := under(t).(*types.Struct)
	var fs []string
	for i := 0; i < st.NumFields(); i++ {
		if !exportedOrSamePkg(st.Field(i), b.pkg) {
			continue
		}
		if s, ok := b.fieldVal(t, i, ref, depth); ok {
			fs = append(fs, st.Field(i).Name()+": "+s)
		}
	}
	return b.typeStr(t) + "{" + strings.Join(fs, ", ") + "}"
}

// object builds (once per address) the object a pointer refers to and returns the variable holding the pointer.
func (b *inputBuilder) object(et types.Type, addr int64, ref Term, depth int) string {
	key := fmt.Sprintf("%s|%d", typeKey(et), addr)
	if vn, ok := b.seen[key]; ok {
		return vn
	}
	b.nvar++
	vn := fmt.Sprintf("v%d", b.nvar)
	b.seen[key] = vn
	ts := b.typeStr(et)
	switch kindOf(et) {
	case kStruct:
		b.stmts = append(b.stmts, fmt.Sprintf("%s := &%s{}", vn, ts))
		st := under(et).(*types.Struct)
		lit := IntLit(addr)
		for i := 0; i < st.NumFields(); i++ {
			if !exportedOrSamePkg(st.Field(i), b.pkg) {
				continue
			}
			if s, ok := b.fieldVal(et, i, lit, depth+1); ok {
				b.stmts = append(b.stmts, fmt.Sprintf("%s.%s = %s", vn, st.Field(i).Name(), s))
			}
		}
	case kArray:
		b.stmts = append(b.stmts, fmt.Sprintf("%s := new(%s)", vn, ts))
	default:
		b.stmts = append(b.stmts, fmt.Sprintf("%s := new(%s)", vn, ts))
		var sorts []Sort
		if kindOf(et) == kScalar || kindOf(et) == kFunc {
			sorts = []Sort{scalarSort(et)}
		} else {
			sorts = flatSorts(et)
		}
		tms := make([]Term, len(sorts))
		ok := true
		for k, suf := range compSuffixes(et) {
			a, found := b.entryArr(famBox(et) + suf)
			if !found {
				ok = false
				break
			}
			tms[k] = Term{fmt.Sprintf("(select %s %d)", a, addr), sorts[k]}
		}
		if ok {
			val, _ := unflatten(et, tms)
			b.stmts = append(b.stmts, fmt.Sprintf("*%s = %s", vn, b.build(et, val, depth+1)))
		}
	}
	return vn
}

func pkgDirOf(w *World, f *ssa.Function) (string, *types.Package) {
	for g := f; g != nil; g = g.Parent() {
		if g.Pkg != nil {
			if p := w.PkgByID[g.Pkg.Pkg.Path()]; p != nil && len(p.GoFiles) > 0 {
				return filepath.Dir(p.GoFiles[0]), g.Pkg.Pkg
			}
		}
	}
	return "", nil
}

// tryReplay rebuilds the obligation's function, asks the solver for a model and runs the real function on it.
func tryReplay(w *World, o *Obligation) *ReplayResult {
	if o.Status != "sat" || !strings.HasPrefix(o.Kind, "SAFE-") {
		return &ReplayResult{Detail: "no executable counterexample: solver status " + o.Status + " for " + o.Kind}
	}
	fn := w.Funcs[o.Func]
	if fn == nil || fn.Parent() != nil {
		return &ReplayResult{Detail: "replay of closures is not supported"}
	}
	if fn.Signature.TypeParams().Len() > 0 || len(fn.TypeArgs()) > 0 {
		return &ReplayResult{Detail: "replay of generic instances is not supported"}
	}
	dir, pkg := pkgDirOf(w, fn)
	if dir == "" {
		return &ReplayResult{Detail: "package directory not found"}
	}
	// the obligation's script is shared with its FnVC; rebuild to get access to values
	v := NewFnVC(w, fn)
	if err := v.Build(); err != nil {
		return &ReplayResult{Detail: "rebuild failed: " + err.Error()}
	}
	var o2 *Obligation
	for _, x := range v.obls {
		if x.ID == o.ID {
			o2 = x
		}
	}
	if o2 == nil {
		return &ReplayResult{Detail: "obligation not found on rebuild"}
	}
	sess, st, err := startSession(o2.Query(false))
	if err != nil || st != "sat" {
		if sess != nil {
			sess.close()
		}
		return &ReplayResult{Detail: "z3 session did not return sat: " + st}
	}
	defer sess.close()
	b := &inputBuilder{w: w, v: v, s: sess, pkg: pkg, imports: map[string]string{}, seen: map[string]string{}, budget: 400}
	var args []string
	for i, p := range fn.Params {
		args = append(args, b.build(p.Type(), v.top.params[i], 0))
	}
	if b.budget < 0 {
		return &ReplayResult{Detail: "model too large to materialise"}
	}
	call := ""
	if fn.Signature.Recv() != nil {
		call = fmt.Sprintf("(%s).%s(%s)", args[0], fn.Name(), strings.Join(args[1:], ", "))
	} else {
		call = fmt.Sprintf("%s(%s)", fn.Name(), strings.Join(args, ", "))
	}
	var src bytes.Buffer
	fmt.Fprintf(&src, "package %s\n\nimport (\n\t\"testing\"\n", pkg.Name())
	var ips []string
	for p := range b.imports {
		ips = append(ips, p)
	}
	sort.Strings(ips)
	for _, p := range ips {
		fmt.Fprintf(&src, "\t%s %q\n", b.imports[p], p)
	}
	fmt.Fprintf(&src, ")\n\nfunc TestGovcReplay(t *testing.T) {\n")
	for _, s := range b.stmts {
		fmt.Fprintf(&src, "\t%s\n", s)
	}
	for i := 1; i <= b.nvar; i++ {
		fmt.Fprintf(&src, "\t_ = v%d\n", i)
	}
	fmt.Fprintf(&src, "\t%s\n}\n", call)
	out, failed := runOverlayTest(dir, src.String())
	rr := &ReplayResult{TestSource: src.String(), Output: truncate(out, 4000)}
	panicked := strings.Contains(out, "panic:") || strings.Contains(out, "[recovered]")
	rr.Reproduced = failed && panicked && !strings.Contains(out, "[build failed]") && !strings.Contains(out, "[setup failed]")
	if b.fail != "" {
		rr.Detail = b.fail
	}
	if rr.Reproduced {
		rr.Detail = "real function panics on the solver's input"
	} else if rr.Detail == "" {
		rr.Detail = "solver's input does not make the real function panic (abstraction in the verifier) or the test did not build"
	}
	m := map[string]any{}
	bb, _ := json.Marshal(rr)
	json.Unmarshal(bb, &m)
	rr.PackageDir = dir
	return rr
}

func runOverlayTest(pkgDir, src string) (string, bool) {
	tmp, err := os.MkdirTemp(scratchDir(), "replay")
	if err != nil {
		return err.Error(), false
	}
	defer os.RemoveAll(tmp)
	tf := filepath.Join(tmp, "govc_replay_test.go")
	os.WriteFile(tf, []byte(src), 0o644)
	ov := map[string]any{"Replace": map[string]string{filepath.Join(pkgDir, "zz_govc_replay_test.go"): tf}}
	ob, _ := json.Marshal(ov)
	of := filepath.Join(tmp, "overlay.json")
	os.WriteFile(of, ob, 0o644)
	ctx, cancel := context.WithTimeout(context.Background(), 180*time.Second)
	defer cancel()
	cmd := exec.CommandContext(ctx, "bash", "-c", fmt.Sprintf("ulimit -v 8000000; cd %q && go test -overlay %q -vet=off -count=1 -timeout 60s -run '^TestGovcReplay$' . 2>&1", pkgDir, of))
	cmd.Env = append(os.Environ(), "GOFLAGS=-mod=mod", "GOPROXY=off")
	out, err := cmd.CombinedOutput()
	return string(out), err != nil
}
