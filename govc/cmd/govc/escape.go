package main

import (
	"go/types"
	"sort"
	"strings"

	"golang.org/x/tools/go/ssa"
)

// localAllocs computes the allocations of fn that are never exposed to a callee: their address (or anything
// holding it) is not passed to a call, bound in a closure, or stored outside other such allocations.
// Callees cannot reach these objects, so their contents survive the havoc of a call.
func localAllocs(fn *ssa.Function) map[*ssa.Alloc]bool {
	esc := map[*ssa.Alloc]bool{}
	inside := map[*ssa.Alloc][]*ssa.Alloc{} // a is stored inside b
	var allocs []*ssa.Alloc
	for _, b := range fn.Blocks {
		for _, ins := range b.Instrs {
			if a, ok := ins.(*ssa.Alloc); ok {
				allocs = append(allocs, a)
			}
		}
	}
	// rootOf: the local allocation an address value is derived from (through FieldAddr/IndexAddr), or nil
	var rootOf func(v ssa.Value, depth int) *ssa.Alloc
	rootOf = func(v ssa.Value, depth int) *ssa.Alloc {
		if depth > 8 {
			return nil
		}
		switch x := v.(type) {
		case *ssa.Alloc:
			return x
		case *ssa.FieldAddr:
			return rootOf(x.X, depth+1)
		case *ssa.IndexAddr:
			if _, isPtr := under(x.X.Type()).(*types.Pointer); isPtr {
				return rootOf(x.X, depth+1)
			}
		}
		return nil
	}
	for _, a := range allocs {
		seen := map[ssa.Value]bool{}
		var visitVal func(v ssa.Value, isAddr bool) bool // returns true when it escapes
		visitVal = func(v ssa.Value, isAddr bool) bool {
			if seen[v] {
				return false
			}
			seen[v] = true
			refs := v.Referrers()
			if refs == nil {
				return true
			}
			for _, r := range *refs {
				switch u := r.(type) {
				case *ssa.DebugRef:
				case *ssa.FieldAddr:
					if u.X != v || visitVal(u, true) {
						return true
					}
				case *ssa.IndexAddr:
					if u.X != v {
						continue // used as index
					}
					if _, isPtr := under(v.Type()).(*types.Pointer); !isPtr {
						return true
					}
					if visitVal(u, true) {
						return true
					}
				case *ssa.UnOp:
					// load through the address: the loaded value is not the address
					if u.Op.String() != "*" {
						return true
					}
				case *ssa.Store:
					if u.Val == v {
						root := rootOf(u.Addr, 0)
						if root == nil {
							return true
						}
						if root != a {
							inside[a] = append(inside[a], root)
						}
					}
				case *ssa.BinOp:
				case *ssa.Return:
				case *ssa.If:
				case *ssa.MakeInterface, *ssa.ChangeInterface, *ssa.ChangeType, *ssa.Phi:
					if visitVal(r.(ssa.Value), false) {
						return true
					}
				case *ssa.TypeAssert:
					if visitVal(u, false) {
						return true
					}
				case *ssa.Extract:
					if visitVal(u, false) {
						return true
					}
				default:
					return true
				}
			}
			return false
		}
		if visitVal(a, true) {
			esc[a] = true
		}
	}
	for changed := true; changed; {
		changed = false
		for a, bs := range inside {
			if esc[a] {
				continue
			}
			for _, b := range bs {
				if esc[b] {
					esc[a] = true
					changed = true
					break
				}
			}
		}
	}
	out := map[*ssa.Alloc]bool{}
	for _, a := range allocs {
		if !esc[a] {
			out[a] = true
		}
	}
	return out
}

type cellRef struct {
	fam  string
	sort Sort
	two  bool
	base Term
}

// cellsOf enumerates the heap cells that make up the object of type t at ref.
func (v *FnVC) cellsOf(t types.Type, ref Term, out *[]cellRef, depth int) {
	if depth > 4 {
		return
	}
	switch kindOf(t) {
	case kStruct:
		st := under(t).(*types.Struct)
		sk := structKey(t)
		for i := 0; i < st.NumFields(); i++ {
			ft := st.Field(i).Type()
			switch kindOf(ft) {
			case kStruct, kArray:
				v.cellsOf(ft, v.subAddr(sk, st.Field(i).Name(), ref), out, depth+1)
			default:
				var sorts []Sort
				if kindOf(ft) == kScalar || kindOf(ft) == kFunc {
					sorts = []Sort{scalarSort(ft)}
				} else {
					sorts = flatSorts(ft)
				}
				for k, suf := range compSuffixes(ft) {
					*out = append(*out, cellRef{famField(sk, st.Field(i).Name()) + suf, arrSort(sorts[k]), false, ref})
				}
			}
		}
	case kArray:
		et := under(t).(*types.Array).Elem()
		if kindOf(et) == kStruct || kindOf(et) == kArray {
			return
		}
		var sorts []Sort
		if kindOf(et) == kScalar || kindOf(et) == kFunc {
			sorts = []Sort{scalarSort(et)}
		} else {
			sorts = flatSorts(et)
		}
		for k, suf := range compSuffixes(et) {
			*out = append(*out, cellRef{famElem(et) + suf, arr2Sort(sorts[k]), true, ref})
		}
	default:
		var sorts []Sort
		if kindOf(t) == kScalar || kindOf(t) == kFunc {
			sorts = []Sort{scalarSort(t)}
		} else {
			sorts = flatSorts(t)
		}
		for k, suf := range compSuffixes(t) {
			*out = append(*out, cellRef{famBox(t) + suf, arrSort(sorts[k]), false, ref})
		}
	}
}

// withLocalFrame runs havoc on st and then restores the contents of callee-unreachable local objects.
func (v *FnVC) withLocalFrame(fr *frame, st *State, havoc func()) {
	v.withLocalFrameExcept(fr, st, nil, havoc)
}

// withLocalFrameExcept: like withLocalFrame, but cells whose family is in skip (families the code itself
// stores to, e.g. inside a loop body) are not preserved.
func (v *FnVC) withLocalFrameExcept(fr *frame, st *State, skip map[string]Sort, havoc func()) {
	if fr.locals == nil {
		fr.locals = localAllocs(fr.fn)
	}
	var cells []cellRef
	for a := range fr.locals {
		val, ok := fr.vals[a]
		if !ok {
			continue
		}
		sc, ok := val.(Sc)
		if !ok {
			continue
		}
		v.cellsOf(elemTypeOfAddr(a), sc.T, &cells, 0)
	}
	if fr.top {
		// backing arrays built by this function that no callee can reach yet
		pa := v.privateArrayBases(fr)
		var keys []string
		for k := range pa {
			keys = append(keys, k)
		}
		sort.Strings(keys)
		for _, k := range keys {
			fams := map[string]Sort{}
			elemStoreFams(pa[k].elem, fams)
			var fns []string
			for f := range fams {
				fns = append(fns, f)
			}
			sort.Strings(fns)
			for _, f := range fns {
				if strings.HasPrefix(f, "E#") {
					cells = append(cells, cellRef{fam: f, sort: fams[f], two: true, base: pa[k].base})
				}
			}
		}
	}
	type saved struct {
		c   cellRef
		old Term
	}
	var olds []saved
	for _, c := range cells {
		if v.he.immutable(c.fam) {
			continue
		}
		if _, direct := skip[c.fam]; direct {
			continue
		}
		a := v.he.get(st, c.fam, c.sort)
		olds = append(olds, saved{c, a})
	}
	havoc()
	reach := tTrue
	if fr.curBlock != nil {
		if r, ok := fr.reach[fr.curBlock.Index]; ok {
			reach = r
		}
	}
	for _, s := range olds {
		na := v.he.get(st, s.c.fam, s.c.sort)
		if na.S == s.old.S {
			continue
		}
		inner := Sort(string(s.c.sort)[len("(Array Int ") : len(s.c.sort)-1])
		v.sc.Assert(Implies(reach, Eq(Select(na, s.c.base, inner), Select(s.old, s.c.base, inner))))
	}
}

// invisibleAllocs: allocations of fn whose cells a caller of fn can never observe: the address is only used
// to load/store, or captured by closures that are only called or passed down as call arguments.
func invisibleAllocs(fn *ssa.Function) map[*ssa.Alloc]bool {
	out := map[*ssa.Alloc]bool{}
	for _, b := range fn.Blocks {
		for _, ins := range b.Instrs {
			a, ok := ins.(*ssa.Alloc)
			if !ok {
				continue
			}
			seen := map[ssa.Value]bool{}
			var addrEsc func(v ssa.Value) bool
			addrEsc = func(v ssa.Value) bool {
				if seen[v] {
					return false
				}
				seen[v] = true
				refs := v.Referrers()
				if refs == nil {
					return true
				}
				for _, r := range *refs {
					switch u := r.(type) {
					case *ssa.DebugRef:
					case *ssa.UnOp:
						if u.Op.String() != "*" {
							return true
						}
					case *ssa.Store:
						if u.Val == v {
							return true
						}
					case *ssa.FieldAddr:
						if u.X != v || addrEsc(u) {
							return true
						}
					case *ssa.IndexAddr:
						if u.X != v {
							continue
						}
						if addrEsc(u) {
							return true
						}
					case *ssa.BinOp:
					case *ssa.MakeClosure:
						// the closure may only be called or handed down
						crefs := u.Referrers()
						if crefs == nil {
							return true
						}
						for _, cr := range *crefs {
							switch cu := cr.(type) {
							case *ssa.DebugRef:
							case ssa.CallInstruction:
								_ = cu
							case *ssa.ChangeType:
								// func type conversion, then must be a call argument
								for _, r2 := range *cu.Referrers() {
									if _, isCall := r2.(ssa.CallInstruction); !isCall {
										if _, isDbg := r2.(*ssa.DebugRef); !isDbg {
											return true
										}
									}
								}
							default:
								return true
							}
						}
					default:
						return true
					}
				}
				return false
			}
			if !addrEsc(a) {
				out[a] = true
			}
		}
	}
	return out
}

func allocRoot(v ssa.Value, depth int) *ssa.Alloc {
	if depth > 8 {
		return nil
	}
	switch x := v.(type) {
	case *ssa.Alloc:
		return x
	case *ssa.FieldAddr:
		return allocRoot(x.X, depth+1)
	case *ssa.IndexAddr:
		if _, isPtr := under(x.X.Type()).(*types.Pointer); isPtr {
			return allocRoot(x.X, depth+1)
		}
	}
	return nil
}

// ---- private slices --------------------------------------------------------------------------------------
// A slice class is a set of slice-typed SSA values that may share a backing array: it is closed under phi,
// reslicing, type changes and append (result and first operand). A class is "locally built" when every member is a
// nil constant, a make([]T, ..), or one of those derived values: no array of the class was ever received from
// outside. The arrays of such a class are unreachable for a callee at instruction H unless an escaping use of a
// member (anything but indexing, len/cap, range, reslicing, being the first operand of append, or flowing into a
// phi) can execute before H. The rows of these arrays survive the havoc of a call or loop at H.

type sliceClassInfo struct {
	members []ssa.Value
	escapes []ssa.Instruction // escaping uses of any member
	tainted bool
}

func (fr *frame) sliceClasses() []*sliceClassInfo {
	if fr.sliceCls != nil {
		return fr.sliceCls
	}
	fn := fr.fn
	parent := map[ssa.Value]ssa.Value{}
	var find func(x ssa.Value) ssa.Value
	find = func(x ssa.Value) ssa.Value {
		if p, ok := parent[x]; ok && p != x {
			r := find(p)
			parent[x] = r
			return r
		}
		parent[x] = x
		return x
	}
	union := func(a, b ssa.Value) { parent[find(a)] = find(b) }
	isSlice := func(x ssa.Value) bool {
		_, ok := under(x.Type()).(*types.Slice)
		return ok
	}
	var seeds []ssa.Value
	for _, b := range fn.Blocks {
		for _, ins := range b.Instrs {
			switch x := ins.(type) {
			case *ssa.MakeSlice:
				seeds = append(seeds, x)
				find(x)
			case *ssa.Call:
				if bi, ok := x.Call.Value.(*ssa.Builtin); ok && bi.Name() == "append" && len(x.Call.Args) > 0 {
					seeds = append(seeds, x)
					union(x, x.Call.Args[0])
				}
			case *ssa.Phi:
				if isSlice(x) {
					for _, e := range x.Edges {
						union(x, e)
					}
				}
			case *ssa.Slice:
				if isSlice(x) && isSlice(x.X) {
					union(x, x.X)
				}
			case *ssa.ChangeType:
				if isSlice(x) && isSlice(x.X) {
					union(x, x.X)
				}
			}
		}
	}
	classes := map[ssa.Value]*sliceClassInfo{}
	for x := range parent {
		r := find(x)
		ci := classes[r]
		if ci == nil {
			ci = &sliceClassInfo{}
			classes[r] = ci
		}
		ci.members = append(ci.members, x)
	}
	for _, ci := range classes {
		for _, m := range ci.members {
			switch x := m.(type) {
			case *ssa.Const:
				if !x.IsNil() {
					ci.tainted = true
				}
				continue // constants have no referrers of their own
			case *ssa.MakeSlice, *ssa.Phi, *ssa.Slice, *ssa.ChangeType:
			case *ssa.Call:
				if bi, ok := x.Call.Value.(*ssa.Builtin); !ok || bi.Name() != "append" {
					ci.tainted = true
				}
			default:
				ci.tainted = true
			}
			if ci.tainted {
				break
			}
			refs := m.Referrers()
			if refs == nil {
				ci.tainted = true
				break
			}
			for _, r := range *refs {
				switch u := r.(type) {
				case *ssa.DebugRef, *ssa.Phi, *ssa.Slice, *ssa.ChangeType:
				case *ssa.IndexAddr:
					// element address: only to load from or store a value into it
					if u.X != m {
						continue
					}
					if ur := u.Referrers(); ur != nil {
						for _, uu := range *ur {
							switch w := uu.(type) {
							case *ssa.UnOp, *ssa.DebugRef:
							case *ssa.Store:
								if w.Addr != u {
									ci.escapes = append(ci.escapes, w)
								}
							default:
								ci.escapes = append(ci.escapes, uu)
							}
						}
					}
				case *ssa.Range:
				case *ssa.Call:
					if bi, ok := u.Call.Value.(*ssa.Builtin); ok {
						switch bi.Name() {
						case "len", "cap":
							continue
						case "append":
							if u.Call.Args[0] == m && (len(u.Call.Args) < 2 || u.Call.Args[1] != m) {
								continue
							}
						}
					}
					ci.escapes = append(ci.escapes, u)
				default:
					ci.escapes = append(ci.escapes, r)
				}
			}
		}
	}
	for _, ci := range classes {
		if !ci.tainted {
			fr.sliceCls = append(fr.sliceCls, ci)
		}
	}
	if fr.sliceCls == nil {
		fr.sliceCls = []*sliceClassInfo{}
	}
	return fr.sliceCls
}

// blockReaches: a path of at least one edge leads from a to b
func (fr *frame) blockReaches(a, b *ssa.BasicBlock) bool {
	if fr.reachMemo == nil {
		fr.reachMemo = map[[2]int]bool{}
	}
	k := [2]int{a.Index, b.Index}
	if r, ok := fr.reachMemo[k]; ok {
		return r
	}
	seen := map[int]bool{}
	work := append([]*ssa.BasicBlock(nil), a.Succs...)
	res := false
	for len(work) > 0 {
		x := work[len(work)-1]
		work = work[:len(work)-1]
		if x == b {
			res = true
			break
		}
		if seen[x.Index] {
			continue
		}
		seen[x.Index] = true
		work = append(work, x.Succs...)
	}
	fr.reachMemo[k] = res
	return res
}

func instrIndex(ins ssa.Instruction) int {
	for i, x := range ins.Block().Instrs {
		if x == ins {
			return i
		}
	}
	return -1
}

// privateArrayBases: backing arrays (base terms with their element type) that no callee can reach at the current
// instruction (fr.curIns; the first instruction of the block at a loop head).
func (v *FnVC) privateArrayBases(fr *frame) map[string]privArr {
	out := map[string]privArr{}
	if fr.curBlock == nil || fr.fn == nil || len(fr.fn.Blocks) == 0 {
		return out
	}
	hb := fr.curBlock
	hi := -1
	if fr.curIns != nil && fr.curIns.Block() == hb {
		hi = instrIndex(fr.curIns)
	}
	for _, ci := range fr.sliceClasses() {
		escaped := false
		for _, u := range ci.escapes {
			ub := u.Block()
			if ub == nil {
				escaped = true
				break
			}
			if (ub == hb && hi >= 0 && instrIndex(u) < hi) || fr.blockReaches(ub, hb) {
				escaped = true
				break
			}
		}
		if escaped {
			continue
		}
		for _, m := range ci.members {
			if _, isC := m.(*ssa.Const); isC {
				continue
			}
			val, ok := fr.vals[m]
			if !ok {
				continue
			}
			sv, ok := val.(SliceV)
			if !ok {
				continue
			}
			out[sv.Arr.S] = privArr{base: sv.Arr, elem: under(m.Type()).(*types.Slice).Elem()}
		}
	}
	return out
}

type privArr struct {
	base Term
	elem types.Type
}
