package main

import (
	"fmt"
	"go/ast"
	"go/constant"
	"os"
	"path/filepath"
	"sort"
	"strconv"
	"strings"

	"golang.org/x/tools/go/ssa"
)

type Clause struct {
	Kind  string // requires, ensures, invariant, decreases, lemma
	Text  string
	Expr  SExpr
	Props []string
	Loop  int
	Name  string // optional label "name: expr"
	File  string
	Line  int
	Pkg   string // axioms: the package (short path) whose contract file declares it; "" = every package
}

type Contract struct {
	Key            string
	Fn             *ssa.Function
	Props          []string
	Requires       []*Clause
	Ensures        []*Clause
	Names          []*Clause
	Invariants     map[int][]*Clause
	Iterations     map[int][]*Clause
	Variants       map[int]*Clause
	DeadReturns map[int]string // return ordinal -> why it cannot be reached (no vacuity guard there)
	Decreases      *Clause
	Pure           bool
	AssignsNothing bool
	AssignsTop     bool
	Assigns        []string // explicit family prefixes
	Trusted        bool     // contract assumed, body not verified (stubs)
	NoInline       bool
	Inline         bool
	File           string
	PkgShort       string
	SafeOnly       bool
	ReadsModel     bool
	Stable         bool
	Entry          bool // inputs are adversarial modulo requires: a replayed panic is a defect of the system
}

type SpecFunc struct {
	Name   string
	Params []SpecParam
	Ret    string // type text
	Body   SExpr  // nil: uninterpreted
	Text   string
}

type SpecParam struct{ Name, Type string }

type Sweep struct {
	Prop   string
	Kind   string // file | package | func
	Target string
	Pkg    string
}

type ContractSet struct {
	ByKey     map[string]*Contract
	ByFunc    map[*ssa.Function]*Contract
	SpecFuncs map[string]*SpecFunc
	Immutable map[string]bool // "F#struct#field" prefixes
	Sweeps    []Sweep
	Files     []string
	Axioms    []*Clause
	Unbound   []string
	FlagSets  map[string]int // type key -> number of bits
	MethodNonNil map[string]bool
	FuncValueNonNil map[string]bool
	StructFacts  []StructFact
	ParametricFiles []string
	ParametricFuncs map[string]bool
	TypeInvs     []*TypeInv
	ChildInvs    []*ChildInv
	ElemsNonNil  map[string]bool // type keys whose slice elements are never nil
	ArgObserved  map[string]bool // function keys whose call operands are recorded as ghost state
	typeInvByKey map[string][]*TypeInv
}

func (cs *ContractSet) argObserved(k string) bool {
	if cs.ArgObserved[k] {
		return true
	}
	if i := strings.Index(k, "["); i > 0 && strings.HasSuffix(k, "]") {
		// generic instance: dsl.(VisitorWithContext[Node]).VisitChildren[...] is observed under its uninstantiated name
		if j := strings.LastIndex(k, "["); j > 0 && cs.ArgObserved[k[:j]] {
			return true
		}
	}
	return false
}

type StructFact struct {
	Kind, Prop, Spec, File string
	Line             int
}

type TypeInv struct {
	TypeText string
	Var      string
	Clause   *Clause
}

var clauseKeywords = map[string]bool{"stable": true, "reads-model": true, "names": true, "iteration": true, "variant": true, "dead-return": true, "requires": true, "ensures": true, "invariant": true, "decreases": true, "property": true,
	"pure": true, "assigns": true, "trusted": true, "noinline": true, "inline": true, "func": true, "sweep": true, "immutable": true, "spec": true,
	"axiom": true, "flagset": true, "safeonly": true, "immutable-family": true, "method-pre": true, "funcvalue-pre": true, "entry": true, "type-invariant": true, "child-invariant": true, "elems-nonnil": true, "callback-parametric": true, "json-hidden": true, "json-visible": true, "pass-order": true, "observe-args": true, "map-order": true, "json-numbers": true, "json-marshaler": true}

var contractRoot = "" // directory that contract file paths are relative to (repo or mirror)

func mirrorDir() string { return filepath.Join(verifDir, "contracts", "repo") }

func findContractFiles() []string {
	var files []string
	walk := func(root string) []string {
		var fs []string
		filepath.Walk(root, func(p string, info os.FileInfo, err error) error {
			if err == nil && !info.IsDir() && strings.HasSuffix(p, "_verif.go") {
				fs = append(fs, p)
			}
			return nil
		})
		return fs
	}
	contractRoot = repoDir()
	if os.Getenv("GOVC_DEV") == "" {
		files = walk(repoDir())
	}
	if len(files) == 0 {
		contractRoot = mirrorDir()
		files = walk(mirrorDir())
	}
	extra := os.Getenv("GOVC_CONTRACTS")
	if extra == "" {
		extra = filepath.Join(verifDir, "contracts")
	}
	filepath.Walk(extra, func(p string, info os.FileInfo, err error) error {
		if err == nil && !info.IsDir() && (strings.HasSuffix(p, ".stub") || strings.HasSuffix(p, ".spec")) {
			files = append(files, p)
		}
		return nil
	})
	sort.Strings(files)
	return files
}

func (w *World) LoadContracts() error {
	cs := &ContractSet{ByKey: map[string]*Contract{}, ByFunc: map[*ssa.Function]*Contract{}, SpecFuncs: map[string]*SpecFunc{},
		Immutable: map[string]bool{}, FlagSets: map[string]int{}}
	cs.Files = findContractFiles()
	for _, f := range cs.Files {
		if err := w.parseContractFile(cs, f); err != nil {
			return err
		}
	}
	for k, c := range cs.ByKey {
		fn := w.Funcs[k]
		if fn == nil && strings.Contains(k, "@") {
			// parent@name : the closure assigned to local variable <name> in function <parent>
			parts := strings.SplitN(k, "@", 2)
			if parent := w.Funcs[parts[0]]; parent != nil {
				if strings.HasPrefix(parts[1], "emits:") {
					// parent@emits:"literal" : the unique closure nested in parent that itself prints that literal
					if lit, err := strconv.Unquote(strings.TrimPrefix(parts[1], "emits:")); err == nil {
						fn = closureEmitting(w, parts[0], lit)
					}
				} else {
					fn = closureNamed(parent, parts[1])
				}
			}
		}
		if fn == nil {
			// a contract on a generic function applies to each of its instances
			found := false
			base, suf := k, ""
			if i := strings.Index(k, "$"); i > 0 {
				base, suf = k[:i], k[i:] // a closure of a generic function: pkg.F$1 binds pkg.F[T1]$1, pkg.F[T2]$1, ...
			}
			for fk, f := range w.Funcs {
				if (suf == "" && strings.HasPrefix(fk, k+"[") && strings.HasSuffix(fk, "]") && !strings.Contains(fk[len(k):], "$")) || (suf != "" && strings.HasPrefix(fk, base+"[") && strings.HasSuffix(fk, "]"+suf)) {
					cc := *c
					cc.Fn = f
					cc.Key = fk
					cs.ByFunc[f] = &cc
					found = true
				}
			}
			if !found {
				cs.Unbound = append(cs.Unbound, k)
			}
			continue
		}
		c.Fn = fn
		cs.ByFunc[fn] = c
	}
	sort.Strings(cs.Unbound)
	w.Contracts = cs
	return nil
}

func (w *World) parseContractFile(cs *ContractSet, file string) error {
	b, err := os.ReadFile(file)
	if err != nil {
		return err
	}
	pkgShort := ""
	if strings.HasSuffix(file, ".go") {
		rel, _ := filepath.Rel(contractRoot, filepath.Dir(file))
		pkgShort = shortPkg(modulePath + "/" + filepath.ToSlash(rel))
	}
	type rawLine struct {
		text string
		line int
	}
	var lines []rawLine
	for i, l := range strings.Split(string(b), "\n") {
		t := strings.TrimSpace(l)
		if !strings.HasPrefix(t, "//@") {
			continue
		}
		t = strings.TrimSpace(strings.TrimPrefix(t, "//@"))
		if t == "" || strings.HasPrefix(t, "//") {
			continue
		}
		// strip trailing comment
		if k := strings.Index(t, " //# "); k >= 0 {
			t = strings.TrimSpace(t[:k])
		}
		first := strings.Fields(t)[0]
		first = strings.TrimSuffix(first, ":")
		if !clauseKeywords[first] && len(lines) > 0 {
			lines[len(lines)-1].text += " " + t
			continue
		}
		lines = append(lines, rawLine{t, i + 1})
	}
	var cur *Contract
	var pendingProps []string
	for _, rl := range lines {
		fs := strings.Fields(rl.text)
		kw := fs[0]
		rest := strings.TrimSpace(strings.TrimPrefix(rl.text, kw))
		mk := func(kind, text string) (*Clause, error) {
			name := ""
			// optional label: "name: expr" where name is an identifier
			if k := strings.Index(text, ":"); k > 0 && !strings.HasPrefix(text[k:], "::") && isIdent(text[:k]) {
				name = text[:k]
				text = strings.TrimSpace(text[k+1:])
			}
			e, err := ParseSpec(text)
			if err != nil {
				return nil, fmt.Errorf("%s:%d: %v", file, rl.line, err)
			}
			return &Clause{Kind: kind, Text: text, Expr: e, File: file, Line: rl.line, Name: name, Props: pendingProps}, nil
		}
		switch kw {
		case "func":
			key := strings.TrimSpace(rest)
			suffix := ""
			if k := strings.Index(key, "@emits:"); k >= 0 {
				suffix = key[k:]
				key = key[:k]
			}
			if k := strings.Index(key, " "); k >= 0 {
				key = key[:k]
			}
			if at := strings.Index(key, "@"); at >= 0 && suffix == "" {
				suffix = key[at:]
				key = key[:at]
			}
			if pkgShort != "" && w.Funcs[key] == nil && w.Funcs[pkgShort+"."+key] != nil {
				key = pkgShort + "." + key
			} else if pkgShort != "" && w.Funcs[key] == nil && !strings.Contains(key, "/") && !strings.HasPrefix(key, pkgShort+".") {
				// keep relative keys bound to their package even if (currently) unbound
				if !looksQualified(key) {
					key = pkgShort + "." + key
				}
			}
			key += suffix
			if cs.ByKey[key] != nil {
				cur = cs.ByKey[key]
			} else {
				cur = &Contract{Key: key, Invariants: map[int][]*Clause{}, File: file, PkgShort: pkgShort}
				cs.ByKey[key] = cur
			}
			if !strings.HasSuffix(file, ".go") {
				cur.Trusted = true
			}
			pendingProps = nil
		case "property":
			ps := strings.Split(strings.ReplaceAll(rest, " ", ""), ",")
			if cur != nil {
				pendingProps = ps
				for _, p := range ps {
					if !contains(cur.Props, p) {
						cur.Props = append(cur.Props, p)
					}
				}
			}
		case "names":
			// names <expr>: a definitional postcondition (gives a ghost name to the result); assumed at call sites,
			// not an obligation of the body
			if cur == nil {
				return fmt.Errorf("%s:%d: clause outside func", file, rl.line)
			}
			c, err := mk("names", rest)
			if err != nil {
				return err
			}
			cur.Names = append(cur.Names, c)
		case "requires", "ensures", "decreases":
			if cur == nil {
				return fmt.Errorf("%s:%d: clause outside func", file, rl.line)
			}
			c, err := mk(kw, rest)
			if err != nil {
				return err
			}
			switch kw {
			case "requires":
				cur.Requires = append(cur.Requires, c)
			case "ensures":
				cur.Ensures = append(cur.Ensures, c)
			case "decreases":
				cur.Decreases = c
			}
		case "dead-return":
			// dead-return n: reason -- the n-th return of the function cannot be reached, for the stated reason (a
			// fact about the data the function branches on, e.g. the contents of a constant table): its vacuity guard
			// is not generated. Listed in the evidence as a declared assumption.
			if cur == nil {
				return fmt.Errorf("%s:%d: dead-return outside func", file, rl.line)
			}
			k := strings.Index(rest, ":")
			if k < 0 {
				return fmt.Errorf("%s:%d: dead-return needs 'n: reason'", file, rl.line)
			}
			n, err := strconv.Atoi(strings.TrimSpace(rest[:k]))
			if err != nil {
				return fmt.Errorf("%s:%d: bad return ordinal", file, rl.line)
			}
			if cur.DeadReturns == nil {
				cur.DeadReturns = map[int]string{}
			}
			cur.DeadReturns[n] = strings.TrimSpace(rest[k+1:])
		case "variant":
			// variant n: expr  -- loop n terminates: expr is a non-negative integer at the head of every iteration that
			// reaches a back edge, and strictly smaller when the back edge is taken
			if cur == nil {
				return fmt.Errorf("%s:%d: variant outside func", file, rl.line)
			}
			k := strings.Index(rest, ":")
			if k < 0 {
				return fmt.Errorf("%s:%d: variant needs 'n: expr'", file, rl.line)
			}
			n, err := strconv.Atoi(strings.TrimSpace(rest[:k]))
			if err != nil {
				return fmt.Errorf("%s:%d: bad loop ordinal", file, rl.line)
			}
			c, err := mk("variant", strings.TrimSpace(rest[k+1:]))
			if err != nil {
				return err
			}
			c.Loop = n
			if cur.Variants == nil {
				cur.Variants = map[int]*Clause{}
			}
			cur.Variants[n] = c
		case "iteration":
			// iteration n: expr  -- holds at the end of every iteration of loop n; old()/emitted() refer to the
			// state at the beginning of that iteration
			if cur == nil {
				return fmt.Errorf("%s:%d: iteration outside func", file, rl.line)
			}
			k := strings.Index(rest, ":")
			if k < 0 {
				return fmt.Errorf("%s:%d: iteration needs 'n: expr'", file, rl.line)
			}
			n, err := strconv.Atoi(strings.TrimSpace(rest[:k]))
			if err != nil {
				return fmt.Errorf("%s:%d: bad loop ordinal", file, rl.line)
			}
			c, err := mk("iteration", strings.TrimSpace(rest[k+1:]))
			if err != nil {
				return err
			}
			c.Loop = n
			if cur.Iterations == nil {
				cur.Iterations = map[int][]*Clause{}
			}
			cur.Iterations[n] = append(cur.Iterations[n], c)
		case "invariant":
			if cur == nil {
				return fmt.Errorf("%s:%d: invariant outside func", file, rl.line)
			}
			k := strings.Index(rest, ":")
			if k < 0 {
				return fmt.Errorf("%s:%d: invariant needs 'n: expr'", file, rl.line)
			}
			n, err := strconv.Atoi(strings.TrimSpace(rest[:k]))
			if err != nil {
				return fmt.Errorf("%s:%d: bad loop ordinal", file, rl.line)
			}
			c, err := mk("invariant", strings.TrimSpace(rest[k+1:]))
			if err != nil {
				return err
			}
			c.Loop = n
			cur.Invariants[n] = append(cur.Invariants[n], c)
		case "pure":
			cur.Pure = true
		case "trusted":
			cur.Trusted = true
		case "noinline":
			cur.NoInline = true
		case "inline":
			cur.Inline = true
		case "safeonly":
			cur.SafeOnly = true
		case "entry":
			cur.Entry = true
		case "stable":
			// the result never changes while a function under verification runs (assumption, listed in evidence):
			// used for observers of resolved type nodes, which no pass mutates after type resolution
			cur.Stable = true
		case "reads-model":
			// the result depends on the arguments and on model (package dsl) objects only
			cur.ReadsModel = true
		case "type-invariant":
			// type-invariant <type> <var> :: <expr>
			k := strings.Index(rest, "::")
			if k < 0 || len(strings.Fields(rest[:k])) != 2 {
				return fmt.Errorf("%s:%d: type-invariant wants '<type> <var> :: <expr>'", file, rl.line)
			}
			hd := strings.Fields(rest[:k])
			c, err := mk("type-invariant", strings.TrimSpace(rest[k+2:]))
			if err != nil {
				return err
			}
			c.Name = hd[1]
			c.Pkg = pkgShort
			cs.TypeInvs = append(cs.TypeInvs, &TypeInv{TypeText: hd[0], Var: hd[1], Clause: c})
		case "child-invariant":
			// child-invariant <structType>.<sliceField> <child> <parent> :: <expr>
			// a fact about every element read from parent.<sliceField> (assumed at the load, no quantifier)
			k := strings.Index(rest, "::")
			if k < 0 || len(strings.Fields(rest[:k])) != 3 {
				return fmt.Errorf("%s:%d: child-invariant wants '<struct>.<field> <child> <parent> :: <expr>'", file, rl.line)
			}
			hd := strings.Fields(rest[:k])
			dot := strings.LastIndex(hd[0], ".")
			if dot < 0 {
				return fmt.Errorf("%s:%d: child-invariant wants '<struct>.<field>'", file, rl.line)
			}
			c, err := mk("child-invariant", strings.TrimSpace(rest[k+2:]))
			if err != nil {
				return err
			}
			c.Pkg = pkgShort
			cs.ChildInvs = append(cs.ChildInvs, &ChildInv{StructText: hd[0][:dot], Field: hd[0][dot+1:], Child: hd[1], Parent: hd[2], Clause: c})
		case "callback-parametric":
			// callback-parametric file <path> : functions of that file call nothing dynamically except the function
			// values they are given (directly or inside the visitor object they pass around)
			if len(fs) >= 3 && fs[1] == "file" {
				cs.ParametricFiles = append(cs.ParametricFiles, fs[2])
			}
			// callback-parametric func <key> : that function calls nothing dynamically except its own function-typed
			// parameters (checked on the SSA when the function is first looked at)
			if len(fs) >= 3 && fs[1] == "func" {
				if cs.ParametricFuncs == nil {
					cs.ParametricFuncs = map[string]bool{}
				}
				k := fs[2]
				if pkgShort != "" && !looksQualified(k) {
					k = pkgShort + "." + k
				}
				cs.ParametricFuncs[k] = true
			}
		case "json-hidden", "json-visible":
			// json-hidden Cxx pkg.Struct.Field ...   : the field never reaches encoding/json (tag json:"-")
			// json-visible Cxx pkg.Struct.Field=name ... : the field is marshalled under that key
			if len(fs) < 3 {
				return fmt.Errorf("%s:%d: %s wants a property and fields", file, rl.line, kw)
			}
			for _, f := range fs[2:] {
				cs.StructFacts = append(cs.StructFacts, StructFact{Kind: kw, Prop: fs[1], Spec: f, File: file, Line: rl.line})
			}
		case "observe-args":
			// observe-args <funcKey>... : record the operands of direct calls of these functions for lastArg(f, i)
			if cs.ArgObserved == nil {
				cs.ArgObserved = map[string]bool{}
			}
			for _, f := range strings.Fields(rest) {
				cs.ArgObserved[f] = true
			}
		case "map-order":
			// map-order Cxx package : no loop over a Go map in this package prints generator output or appends to a
			// slice that is not sorted afterwards (map iteration order is random: decided on the SSA)
			if len(fs) >= 3 && fs[2] == "package" {
				cs.StructFacts = append(cs.StructFacts, StructFact{Kind: kw, Prop: fs[1], Spec: pkgShort, File: file, Line: rl.line})
			}
		case "json-marshaler":
			// json-marshaler Cxx pkg.Struct.Field=pkg.Type : the field is declared with that named type, so that
			// encoding/json writes it through the MarshalJSON method of that type (decided by go/types)
			if len(fs) < 3 {
				return fmt.Errorf("%s:%d: json-marshaler wants a property and Struct.Field=Type", file, rl.line)
			}
			for _, f := range fs[2:] {
				cs.StructFacts = append(cs.StructFacts, StructFact{Kind: kw, Prop: fs[1], Spec: f, File: file, Line: rl.line})
			}
		case "json-numbers":
			// json-numbers Cxx package : no struct type of this package (function-local view types included) marshals
			// a number through `omitempty` - the zero value would be written like an absent one (decided by go/types)
			if len(fs) >= 3 && fs[2] == "package" {
				cs.StructFacts = append(cs.StructFacts, StructFact{Kind: kw, Prop: fs[1], Spec: pkgShort, File: file, Line: rl.line})
			}
		case "pass-order":
			// pass-order Cxx pkg.Driver: pkg.A < pkg.B : the driver calls the functions of one slice literal in order,
			// exactly once each, and A precedes B in it (a caller-history precondition of B, decided on the SSA)
			if len(fs) != 6 || !strings.HasSuffix(fs[2], ":") || fs[4] != "<" {
				return fmt.Errorf("%s:%d: pass-order wants 'Cxx pkg.Driver: pkg.A < pkg.B'", file, rl.line)
			}
			cs.StructFacts = append(cs.StructFacts, StructFact{Kind: kw, Prop: fs[1], Spec: strings.TrimSuffix(fs[2], ":") + ": " + fs[3] + " < " + fs[5], File: file, Line: rl.line})
		case "elems-nonnil":
			if cs.ElemsNonNil == nil {
				cs.ElemsNonNil = map[string]bool{}
			}
			for _, f := range strings.Fields(rest) {
				cs.ElemsNonNil[f] = true
			}
		case "assigns":
			if rest == "nothing" {
				cur.AssignsNothing = true
			} else if rest == "*" {
				cur.AssignsTop = true
			} else {
				cur.Assigns = append(cur.Assigns, strings.Fields(strings.ReplaceAll(rest, ",", " "))...)
			}
		case "immutable-family":
			for _, f := range strings.Fields(strings.ReplaceAll(rest, ",", " ")) {
				cs.Immutable[f] = true
			}
		case "method-pre":
			// method-pre UnmarshalYAML nonnil : receiver and pointer parameters of every method with that name are non-nil
			if len(fs) >= 3 && fs[2] == "nonnil" {
				if cs.MethodNonNil == nil {
					cs.MethodNonNil = map[string]bool{}
				}
				cs.MethodNonNil[fs[1]] = true
			}
		case "funcvalue-pre":
			// funcvalue-pre pkg.FuncType nonnil : every call through a value of that named function type passes
			// non-nil interface and pointer operands (a precondition at each such call)
			if len(fs) >= 3 && fs[2] == "nonnil" {
				if cs.FuncValueNonNil == nil {
					cs.FuncValueNonNil = map[string]bool{}
				}
				k := fs[1]
				if pkgShort != "" && !strings.Contains(k, ".") {
					k = pkgShort + "." + k
				}
				cs.FuncValueNonNil[k] = true
			}
		case "immutable":
			for _, f := range strings.Fields(strings.ReplaceAll(rest, ",", " ")) {
				// pkg.Struct.field
				k := strings.LastIndex(f, ".")
				if k < 0 {
					return fmt.Errorf("%s:%d: immutable wants pkg.Struct.field", file, rl.line)
				}
				cs.Immutable[famField(f[:k], f[k+1:])] = true
			}
		case "sweep":
			// sweep C10 file pkg/dsl/yaml.go | sweep C10 package | sweep C10 func key
			if len(fs) < 3 {
				return fmt.Errorf("%s:%d: bad sweep", file, rl.line)
			}
			sw := Sweep{Prop: fs[1], Kind: fs[2], Pkg: pkgShort}
			if len(fs) > 3 {
				sw.Target = fs[3]
			}
			cs.Sweeps = append(cs.Sweeps, sw)
		case "flagset":
			n, _ := strconv.Atoi(fs[2])
			cs.FlagSets[fs[1]] = n
		case "axiom":
			c, err := mk("axiom", rest)
			if err != nil {
				return err
			}
			c.Pkg = pkgShort // an axiom of a package contract file speaks about, and is assumed in, that package only
			cs.Axioms = append(cs.Axioms, c)
		case "spec":
			// spec func name(a T, b U) R [= expr]
			sf, err := parseSpecFunc(strings.TrimSpace(strings.TrimPrefix(rest, "func")))
			if err != nil {
				return fmt.Errorf("%s:%d: %v", file, rl.line, err)
			}
			if pkgShort != "" {
				cs.SpecFuncs[pkgShort+"."+sf.Name] = sf // spec functions of a package contract file are package-scoped
			} else {
				cs.SpecFuncs[sf.Name] = sf
			}
		}
	}
	return nil
}

func looksQualified(key string) bool {
	// "pkg.Func" or "pkg.(*T).M": a dot before any '(' that is not part of a receiver
	if strings.HasPrefix(key, "(") {
		return false
	}
	k := strings.Index(key, ".")
	return k > 0
}

func isIdent(s string) bool {
	if s == "" {
		return false
	}
	for i, r := range s {
		if !(r == '_' || r >= 'a' && r <= 'z' || r >= 'A' && r <= 'Z' || (i > 0 && (r >= '0' && r <= '9' || r == '-'))) {
			return false
		}
	}
	return true
}

func contains(xs []string, x string) bool {
	for _, y := range xs {
		if y == x {
			return true
		}
	}
	return false
}

func parseSpecFunc(s string) (*SpecFunc, error) {
	// name(a T, b U) R [= expr]
	op := strings.Index(s, "(")
	cp := strings.Index(s, ")")
	if op < 0 || cp < op {
		return nil, fmt.Errorf("bad spec func %q", s)
	}
	sf := &SpecFunc{Name: strings.TrimSpace(s[:op]), Text: s}
	ps := strings.TrimSpace(s[op+1 : cp])
	if ps != "" {
		for _, p := range strings.Split(ps, ",") {
			f := strings.Fields(p)
			if len(f) != 2 {
				return nil, fmt.Errorf("bad spec param %q", p)
			}
			sf.Params = append(sf.Params, SpecParam{f[0], f[1]})
		}
	}
	rest := strings.TrimSpace(s[cp+1:])
	if k := strings.Index(rest, "="); k >= 0 && !strings.HasPrefix(rest[k:], "==") {
		sf.Ret = strings.TrimSpace(rest[:k])
		e, err := ParseSpec(strings.TrimSpace(rest[k+1:]))
		if err != nil {
			return nil, err
		}
		sf.Body = e
	} else {
		sf.Ret = rest
	}
	return sf, nil
}

func closureNamed(parent *ssa.Function, name string) *ssa.Function {
	for _, b := range parent.Blocks {
		for _, ins := range b.Instrs {
			dr, ok := ins.(*ssa.DebugRef)
			if !ok {
				continue
			}
			id, ok := dr.Expr.(*ast.Ident)
			if !ok || id.Name != name {
				continue
			}
			switch x := dr.X.(type) {
			case *ssa.MakeClosure:
				return x.Fn.(*ssa.Function)
			case *ssa.Function:
				return x
			case *ssa.Alloc:
				// captured function variable: look at what is stored into the cell
				for _, r := range *x.Referrers() {
					if st, ok := r.(*ssa.Store); ok && st.Addr == ssa.Value(x) {
						if mc, ok := st.Val.(*ssa.MakeClosure); ok {
							return mc.Fn.(*ssa.Function)
						}
					}
				}
			}
		}
	}
	return nil
}

func closureEmitting(w *World, parentKey, lit string) *ssa.Function {
	var found *ssa.Function
	for k, f := range w.Funcs {
		if !strings.HasPrefix(k, parentKey+"$") {
			continue
		}
		has := false
		for _, b := range f.Blocks {
			for _, ins := range b.Instrs {
				ci, ok := ins.(ssa.CallInstruction)
				if !ok {
					continue
				}
				for _, a := range ci.Common().Args {
					if c, ok := a.(*ssa.Const); ok && c.Value != nil && c.Value.Kind() == constant.String && (constant.StringVal(c.Value) == lit || (constant.StringVal(c.Value)+"\n" == lit && ci.Common().StaticCallee() != nil && ci.Common().StaticCallee().Name() == "WriteStringln")) {
						has = true
					}
				}
			}
		}
		if has {
			if found != nil {
				return nil // ambiguous
			}
			found = f
		}
	}
	return found
}

// ChildInv: a fact about every element c read from p.<Field> (p of type *<StructText>), assumed where the element is loaded.
type ChildInv struct {
	StructText, Field string
	Child, Parent     string
	Clause            *Clause
	structKey         string
}
