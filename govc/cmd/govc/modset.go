package main

import (
	"fmt"
	"go/types"
	"os"
	"reflect"
	"sort"
	"strings"

	"golang.org/x/tools/go/ssa"
)

// ModSet: heap array families a function may write (transitively).
type ModSet struct {
	Top  bool
	Fams map[string]Sort
	// NonFresh[f]: some write to family f may hit an object that existed before the call.
	// Families in Fams but not in NonFresh are only written at objects allocated during the call.
	NonFresh map[string]bool
}

func (m *ModSet) markNonFresh(f string) bool {
	if m.NonFresh == nil {
		m.NonFresh = map[string]bool{}
	}
	if m.NonFresh[f] {
		return false
	}
	m.NonFresh[f] = true
	return true
}

func (m *ModSet) add(f string, s Sort) bool {
	if m.Top {
		return false
	}
	if _, ok := m.Fams[f]; ok {
		return false
	}
	m.Fams[f] = s
	return true
}

func (m *ModSet) union(o *ModSet) bool {
	if m.Top {
		return false
	}
	if o.Top {
		m.Top = true
		m.Fams = map[string]Sort{}
		return true
	}
	ch := false
	for f, s := range o.Fams {
		if m.add(f, s) {
			ch = true
		}
		if o.NonFresh[f] && m.markNonFresh(f) {
			ch = true
		}
	}
	return ch
}

type ModInfo struct {
	w    *World
	mods map[*ssa.Function]*ModSet
	// escFields[typeKey(τ)] = field families of type τ whose address escapes
	escFields map[string]map[string]Sort
	escElems  map[string]bool
	reads     map[*ssa.Function]*ModSet
	emits     map[*ssa.Function]*emitSet
	allFmts   map[string]bool
	rawMods   map[*ssa.Function]*ModSet
	checkPureDecls func()
	fvOnly    map[*ssa.Function]map[string]bool
	invisible map[*ssa.Function]map[*ssa.Alloc]bool
}

// externalTopPkgs: packages whose functions may write module-typed heap through
// reflection or callbacks. Every other non-module function is assumed not to write
// heap cells that module code can observe (trusted, listed in evidence).
var externalTopPkgs = []string{
	"gopkg.in/yaml.v3", "encoding/json", "sort", "slices", "github.com/knadh/koanf",
	"github.com/spf13/cobra", "github.com/alecthomas/participle", "text/template", "reflect",
	"github.com/go-viper/mapstructure", "github.com/mitchellh", "github.com/fsnotify", "container/",
}

var externalPureFuncs = map[string]bool{
	"encoding/json.Marshal": true, "encoding/json.MarshalIndent": true, "gopkg.in/yaml.v3.Marshal": true,
	"sort.SearchInts": true, "sort.SearchStrings": true, "sort.Search": true, "slices.Contains": true, "slices.Index": true,
	"reflect.TypeOf": true, "reflect.DeepEqual": true, "reflect.ValueOf": true,
}

func externalIsTop(f *ssa.Function) bool {
	name := f.String()
	// Error()/String() of library types are observers (trusted: listed in evidence)
	if f.Signature.Recv() != nil && f.Signature.Params().Len() == 0 {
		switch f.Name() {
		case "Error", "String", "GoString", "Unwrap":
			return false
		case "Position", "Message":
			// participle.Error observers
			if strings.Contains(name, "github.com/alecthomas/participle/v2") {
				return false
			}
		}
	}
	if externalPureFuncs[name] {
		return false
	}
	if k := strings.Index(name, "["); k > 0 && externalPureFuncs[name[:k]] {
		return false // an instance of a generic library function (slices.Contains[[]bool bool])
	}
	p := ""
	if f.Pkg != nil {
		p = f.Pkg.Pkg.Path()
	} else if o := f.Origin(); o != nil && o.Pkg != nil {
		p = o.Pkg.Pkg.Path()
	} else if f.Parent() != nil {
		return externalIsTop(f.Parent())
	} else if strings.Contains(name, "$bound") || strings.Contains(name, "$thunk") {
		return false
	}
	for _, t := range externalTopPkgs {
		if strings.HasPrefix(p, t) {
			return true
		}
	}
	return false
}

func storeFams(t types.Type, prefix string, out map[string]Sort, two bool) {
	// families written when a value of type t is stored at family prefix
	wrap := func(s Sort) Sort {
		if two {
			return arr2Sort(s)
		}
		return arrSort(s)
	}
	switch kindOf(t) {
	case kSlice:
		out[prefix+".arr"] = wrap(SInt)
		out[prefix+".off"] = wrap(SInt)
		out[prefix+".len"] = wrap(SInt)
	case kIface:
		out[prefix+".tag"] = wrap(SInt)
		out[prefix+".ref"] = wrap(SInt)
	case kStruct, kArray:
		// handled by caller (sub-addresses)
	default:
		out[prefix] = wrap(scalarSort(t))
	}
}

// structStoreFams: all field families written by a whole-struct store of type t.
func structStoreFams(t types.Type, out map[string]Sort) {
	st, ok := under(t).(*types.Struct)
	if !ok {
		return
	}
	sk := structKey(t)
	for i := 0; i < st.NumFields(); i++ {
		ft := st.Field(i).Type()
		switch kindOf(ft) {
		case kStruct:
			structStoreFams(ft, out)
		case kArray:
			at := under(ft).(*types.Array)
			elemStoreFams(at.Elem(), out)
		default:
			storeFams(ft, famField(sk, st.Field(i).Name()), out, false)
		}
	}
}

func elemStoreFams(t types.Type, out map[string]Sort) {
	switch kindOf(t) {
	case kStruct:
		structStoreFams(t, out)
	case kArray:
		elemStoreFams(under(t).(*types.Array).Elem(), out)
	default:
		storeFams(t, famElem(t), out, true)
	}
}

func boxStoreFams(t types.Type, out map[string]Sort) {
	switch kindOf(t) {
	case kStruct:
		structStoreFams(t, out)
	case kArray:
		elemStoreFams(under(t).(*types.Array).Elem(), out)
	default:
		storeFams(t, famBox(t), out, false)
	}
}

func mapFams(m *types.Map, out map[string]Sort) {
	ks := mapKeySort(m.Key())
	out[famMap("MD", m)] = Sort("(Array Int (Array " + string(ks) + " Bool))")
	out[famMap("ML", m)] = arrSort(SInt)
	pre := famMap("MV", m)
	fs := flatSorts(m.Elem())
	for i, suf := range mapCompSuffixes(m.Elem()) {
		so := SInt
		if kindOf(m.Elem()) == kScalar {
			so = scalarSort(m.Elem())
		} else if kindOf(m.Elem()) == kStruct && flatScalarStruct(m.Elem()) {
			so = fs[i]
		}
		out[pre+suf] = Sort("(Array Int (Array " + string(ks) + " " + string(so) + "))")
	}
}

func mapKeySort(k types.Type) Sort {
	if kindOf(k) == kScalar {
		s := scalarSort(k)
		if s == SFlt {
			return SInt
		}
		return s
	}
	return SInt // interface / struct keys: keyed by an opaque Int digest (see Lookup)
}

func elemTypeOfAddr(v ssa.Value) types.Type {
	if p, ok := under(v.Type()).(*types.Pointer); ok {
		return p.Elem()
	}
	return nil
}

func (mi *ModInfo) ownMods(f *ssa.Function) *ModSet {
	ms := &ModSet{Fams: map[string]Sort{}}
	tmp := map[string]Sort{}
	nonFresh := map[string]bool{}
	fvOnly := map[string]bool{}
	invisible := invisibleAllocs(f)
	for _, b := range f.Blocks {
		for _, ins := range b.Instrs {
			switch x := ins.(type) {
			case *ssa.Store:
				// stores into cells that no caller can observe do not belong to the function's effect
				if r := allocRoot(x.Addr, 0); r != nil && invisible[r] {
					continue
				}
				one := map[string]Sort{}
				mi.storeTargetFams(x.Addr, one)
				fresh := freshAddr(x.Addr, 0)
				viaFV := freeVarRoot(x.Addr, 0) != nil
				for k, so := range one {
					tmp[k] = so
					if !fresh {
						nonFresh[k] = true
					}
					if viaFV {
						if _, seen := fvOnly[k]; !seen {
							fvOnly[k] = true
						}
					} else {
						fvOnly[k] = false
					}
				}
			case *ssa.MapUpdate:
				if m, ok := under(x.Map.Type()).(*types.Map); ok {
					one := map[string]Sort{}
					mapFams(m, one)
					_, fresh := x.Map.(*ssa.MakeMap)
					for k, so := range one {
						tmp[k] = so
						if !fresh {
							nonFresh[k] = true
						}
					}
				}
			case ssa.CallInstruction:
				c := x.Common()
				if bi, ok := c.Value.(*ssa.Builtin); ok {
					switch bi.Name() {
					case "append", "copy":
						if len(c.Args) > 0 {
							if sl, ok := under(c.Args[0].Type()).(*types.Slice); ok {
								one := map[string]Sort{}
								elemStoreFams(sl.Elem(), one)
								for k, so := range one {
									tmp[k] = so
									// append writes the (modelled) fresh backing array only; copy writes its destination
									if bi.Name() == "copy" && !freshSlice(c.Args[0], 0) {
										nonFresh[k] = true
									}
								}
							}
						}
					case "delete", "clear":
						if len(c.Args) > 0 {
							one := map[string]Sort{}
							if m, ok := under(c.Args[0].Type()).(*types.Map); ok {
								mapFams(m, one)
							}
							if sl, ok := under(c.Args[0].Type()).(*types.Slice); ok {
								elemStoreFams(sl.Elem(), one)
							}
							for k, so := range one {
								tmp[k] = so
								nonFresh[k] = true
							}
						}
					}
				}
			case *ssa.Go, *ssa.Send, *ssa.Select:
				ms.Top = true
			}
		}
	}
	for k, s := range tmp {
		ms.add(k, s)
		if nonFresh[k] {
			ms.markNonFresh(k)
		}
	}
	// any other kind of write (maps, append, ...) disqualifies "only through free variables"
	if mi.fvOnly == nil {
		mi.fvOnly = map[*ssa.Function]map[string]bool{}
	}
	only := map[string]bool{}
	for k, v := range fvOnly {
		if v {
			only[k] = true
		}
	}
	mi.fvOnly[f] = only
	return ms
}

func freeVarRoot(v ssa.Value, depth int) *ssa.FreeVar {
	if depth > 8 {
		return nil
	}
	switch x := v.(type) {
	case *ssa.FreeVar:
		return x
	case *ssa.FieldAddr:
		return freeVarRoot(x.X, depth+1)
	case *ssa.IndexAddr:
		if _, isPtr := under(x.X.Type()).(*types.Pointer); isPtr {
			return freeVarRoot(x.X, depth+1)
		}
	}
	return nil
}

// closureLocalFams: families that closure c (a lexical child of p) writes only through captured variables
// that are caller-invisible cells of p. Such writes are invisible to p's callers.
func (mi *ModInfo) closureLocalFams(p, c *ssa.Function) map[string]bool {
	only := mi.fvOnly[c]
	if len(only) == 0 || c.Parent() != p {
		return nil
	}
	inv := mi.invisible[p]
	if inv == nil {
		inv = invisibleAllocs(p)
		if mi.invisible == nil {
			mi.invisible = map[*ssa.Function]map[*ssa.Alloc]bool{}
		}
		mi.invisible[p] = inv
	}
	// every binding of every MakeClosure of c in p must be an invisible alloc of p (or not a pointer cell)
	for _, b := range p.Blocks {
		for _, ins := range b.Instrs {
			mc, ok := ins.(*ssa.MakeClosure)
			if !ok || mc.Fn != ssa.Value(c) {
				continue
			}
			for _, bnd := range mc.Bindings {
				if al, ok := bnd.(*ssa.Alloc); ok {
					if !inv[al] {
						return nil
					}
				} else if _, isPtr := under(bnd.Type()).(*types.Pointer); isPtr {
					return nil
				}
			}
		}
	}
	return only
}

// freshAddr: the address denotes a cell of an object allocated by this very function.
func freshAddr(v ssa.Value, depth int) bool {
	if depth > 8 {
		return false
	}
	switch x := v.(type) {
	case *ssa.Alloc:
		return true
	case *ssa.FieldAddr:
		return freshAddr(x.X, depth+1)
	case *ssa.IndexAddr:
		if _, isPtr := under(x.X.Type()).(*types.Pointer); isPtr {
			return freshAddr(x.X, depth+1)
		}
		return freshSlice(x.X, depth+1)
	}
	return false
}

func freshSlice(v ssa.Value, depth int) bool {
	if depth > 8 {
		return false
	}
	switch x := v.(type) {
	case *ssa.MakeSlice:
		return true
	case *ssa.Slice:
		if _, isPtr := under(x.X.Type()).(*types.Pointer); isPtr {
			return freshAddr(x.X, depth+1)
		}
		return freshSlice(x.X, depth+1)
	case *ssa.Call:
		if bi, ok := x.Call.Value.(*ssa.Builtin); ok && bi.Name() == "append" {
			return true
		}
	case *ssa.ChangeType:
		return freshSlice(x.X, depth+1)
	}
	return false
}

func (mi *ModInfo) storeTargetFams(addr ssa.Value, out map[string]Sort) {
	et := elemTypeOfAddr(addr)
	if et == nil {
		return
	}
	switch a := addr.(type) {
	case *ssa.FieldAddr:
		st, isStruct := under(elemTypeOfAddr(a.X)).(*types.Struct)
		if !isStruct {
			return
		}
		ft := st.Field(a.Field).Type()
		switch kindOf(ft) {
		case kStruct:
			structStoreFams(ft, out)
		case kArray:
			elemStoreFams(under(ft).(*types.Array).Elem(), out)
		default:
			storeFams(ft, famField(structKey(elemTypeOfAddr(a.X)), st.Field(a.Field).Name()), out, false)
			// direct stores to address-escaping fields also disturb P#τ
			if mi.escFields != nil {
				if _, esc := mi.escFields[typeKey(ft)][famField(structKey(elemTypeOfAddr(a.X)), st.Field(a.Field).Name())]; esc {
					boxStoreFams(ft, out)
				}
			}
		}
	case *ssa.IndexAddr:
		elemStoreFams(et, out)
	case *ssa.Alloc, *ssa.FreeVar, *ssa.Global:
		// a local variable cell (own or captured) or a package variable: cannot alias an escaped field address
		boxStoreFams(et, out)
	default:
		boxStoreFams(et, out)
		// a store through a pointer of unknown origin may hit any address-escaping field / element of that type
		if mi.escFields != nil && kindOf(et) != kStruct {
			for fam, so := range mi.escFields[typeKey(et)] {
				storeFamsNamed(et, fam, so, out)
			}
			if mi.escElems[typeKey(et)] {
				elemStoreFams(et, out)
			}
		}
	}
}

func storeFamsNamed(t types.Type, fam string, _ Sort, out map[string]Sort) {
	storeFams(t, fam, out, false)
}

func (w *World) ComputeMods() *ModInfo {
	raw := w.computeModsImpl(false)
	mi := w.computeModsImpl(true)
	mi.rawMods = raw.mods
	w.PureUnverified = nil
	mi.checkPureDecls()
	return mi
}

func (w *World) computeModsImpl(withOverrides bool) *ModInfo {
	mi := &ModInfo{w: w, mods: map[*ssa.Function]*ModSet{}, escFields: map[string]map[string]Sort{}, escElems: map[string]bool{}}
	// pass 0: escaping field / element addresses
	for _, f := range w.AllFns {
		if !w.InModule(f) {
			continue
		}
		for _, b := range f.Blocks {
			for _, ins := range b.Instrs {
				var v ssa.Value
				var isField bool
				switch x := ins.(type) {
				case *ssa.FieldAddr:
					v, isField = x, true
				case *ssa.IndexAddr:
					v = x
				default:
					continue
				}
				et := elemTypeOfAddr(v)
				if et == nil || kindOf(et) == kStruct || kindOf(et) == kArray {
					continue
				}
				esc := false
				for _, r := range *v.Referrers() {
					switch u := r.(type) {
					case *ssa.UnOp:
					case *ssa.Store:
						if u.Val == v {
							esc = true
						}
					case *ssa.DebugRef:
					default:
						esc = true
					}
				}
				if !esc {
					continue
				}
				if os.Getenv("GOVC_DEBUG_ESC") != "" {
					fmt.Fprintf(os.Stderr, "ESC %s in %s: %s\n", v, FuncKey(f), v.Type())
				}
				if isField {
					fa := v.(*ssa.FieldAddr)
					st, isStruct := under(elemTypeOfAddr(fa.X)).(*types.Struct)
					if !isStruct {
						continue
					}
					fam := famField(structKey(elemTypeOfAddr(fa.X)), st.Field(fa.Field).Name())
					k := typeKey(et)
					if mi.escFields[k] == nil {
						mi.escFields[k] = map[string]Sort{}
					}
					mi.escFields[k][fam] = SInt
				} else {
					mi.escElems[typeKey(et)] = true
				}
			}
		}
	}
	for _, f := range w.AllFns {
		if w.InModule(f) && len(f.Blocks) > 0 {
			mi.mods[f] = mi.ownMods(f)
		}
	}
	// contract overrides (after a first fixpoint that is used to check the "pure" declarations)
	mi.checkPureDecls = func() {
		if w.Contracts == nil {
			return
		}
		for f, c := range w.Contracts.ByFunc {
			if !(c.Pure || c.AssignsNothing) || c.Trusted || !w.InModule(f) {
				continue
			}
			ms := mi.rawMods[f]
			if ms == nil {
				continue
			}
			if ms.Top {
				w.PureUnverified = append(w.PureUnverified, FuncKey(f)+": effect unknown (calls code outside the analysed effect model)")
				continue
			}
			var bad []string
			for fam := range ms.NonFresh {
				bad = append(bad, fam)
			}
			sort.Strings(bad)
			if len(bad) > 0 {
				if len(bad) > 4 {
					bad = append(bad[:4], "...")
				}
				w.PureUnverified = append(w.PureUnverified, FuncKey(f)+": may write pre-existing "+strings.Join(bad, ","))
			}
		}
		sort.Strings(w.PureUnverified)
	}
	override := map[*ssa.Function]bool{}
	if w.Contracts != nil && withOverrides {
		for f, c := range w.Contracts.ByFunc {
			if c.Pure || c.AssignsNothing {
				mi.mods[f] = &ModSet{Fams: map[string]Sort{}}
				override[f] = true
			} else if c.AssignsTop {
				mi.mods[f] = &ModSet{Top: true, Fams: map[string]Sort{}}
				override[f] = true
			}
		}
	}
	changed := true
	for changed {
		changed = false
		for f, ms := range mi.mods {
			if override[f] || ms.Top {
				continue
			}
			n := w.CG.Nodes[f]
			if n == nil {
				continue
			}
			// dynamic call sites without any edge => Top
			for _, b := range f.Blocks {
				for _, ins := range b.Instrs {
					if ci, ok := ins.(ssa.CallInstruction); ok {
						c := ci.Common()
						if c.StaticCallee() == nil && !c.IsInvoke() && !w.IsParametric(f) {
							if _, isb := c.Value.(*ssa.Builtin); !isb {
								has := false
								for _, e := range n.Out {
									if e.Site == ci {
										has = true
										break
									}
								}
								if !has && !ms.Top {
									ms.Top = true
									changed = true
								}
							}
						}
					}
				}
			}
			for _, e := range n.Out {
				cal := e.Callee.Func
				if e.Site != nil {
					sc := e.Site.Common()
					// dynamic calls through function values inside a callback-parametric function are accounted
					// for at the call sites that supply the callbacks
					if w.IsParametric(f) && sc.StaticCallee() == nil && !sc.IsInvoke() {
						continue
					}
					if st := sc.StaticCallee(); st != nil && w.IsParametric(st) && st == cal {
						targets, ok := funcArgTargets(sc, f, w)
						if !ok && !ms.Top {
							ms.Top = true
							ms.Fams = map[string]Sort{}
							changed = true
						}
						for _, t := range targets {
							if tm, ok := mi.mods[t]; ok && mi.unionFiltered(ms, tm, f, t) {
								changed = true
							}
						}
					}
				}
				if cm, ok := mi.mods[cal]; ok {
					if mi.unionFiltered(ms, cm, f, cal) {
						changed = true
					}
				} else if w.Contracts != nil && w.Contracts.ByFunc[cal] != nil && (w.Contracts.ByFunc[cal].Pure || w.Contracts.ByFunc[cal].AssignsNothing) && (withOverrides || !w.InModule(cal)) {
					// stubbed as pure
				} else if con := w.stubAssigns(cal); con != nil {
					// library function with a stub contract that names its frame: `assigns F#<struct>#<field> ...`
					for fam, so := range con {
						if ms.add(fam, so) {
							changed = true
						}
						ms.markNonFresh(fam)
					}
				} else if len(cal.Blocks) == 0 && w.InModule(cal) {
					// no body in module (should not happen)
				} else if !w.InModule(cal) {
					if e.Site != nil {
						switch cal.String() {
						case "sort.Slice", "sort.SliceStable", "sort.Strings", "sort.Ints":
							sc := e.Site.Common()
							var st types.Type
							if mk, ok := sc.Args[0].(*ssa.MakeInterface); ok {
								st = mk.X.Type()
							} else {
								st = sc.Args[0].Type()
							}
							if sl, ok := under(st).(*types.Slice); ok {
								tmp := map[string]Sort{}
								elemStoreFams(sl.Elem(), tmp)
								for k, so := range tmp {
									if ms.add(k, so) {
										changed = true
									}
								}
								targets, ok := funcArgTargets(sc, f, w)
								if ok {
									for _, t := range targets {
										if tm, ok := mi.mods[t]; ok && ms.union(tm) {
											changed = true
										}
									}
									continue
								}
							}
						}
					}
					if de := w.decodeEffect(cal, siteCommon(e.Site), mi); de != nil {
						if ms.union(de) {
							changed = true
						}
						continue
					}
					if externalIsTop(cal) && !ms.Top {
						ms.Top = true
						ms.Fams = map[string]Sort{}
						changed = true
					}
					// a library function that is handed function values may call them
					if e.Site != nil && !ms.Top && hasFuncArg(e.Site.Common()) {
						targets, ok := funcArgTargets(e.Site.Common(), f, w)
						if !ok {
							ms.Top = true
							ms.Fams = map[string]Sort{}
							changed = true
						} else {
							for _, t := range targets {
								if tm, ok := mi.mods[t]; ok && mi.unionFiltered(ms, tm, f, t) {
									changed = true
								}
							}
						}
					}
				}
			}
		}
	}
	w.mods = mi
	// immutable declarations are checked, not trusted: no module function may store to such a family
	if w.Contracts != nil {
		for f, ms := range mi.mods {
			own := mi.ownMods(f)
			_ = ms
			for fam := range own.Fams {
				if !own.NonFresh[fam] {
					continue // initialising an object the function has just allocated is not a mutation
				}
				for imm := range w.Contracts.Immutable {
					if famIsUnder(fam, imm) {
						w.ImmutableViolations = append(w.ImmutableViolations, FuncKey(f)+" writes "+fam)
					}
				}
			}
		}
		sort.Strings(w.ImmutableViolations)
	}
	return mi
}

func (mi *ModInfo) Of(f *ssa.Function) *ModSet {
	if ms, ok := mi.mods[f]; ok {
		return ms
	}
	if mi.w.Contracts != nil {
		if c := mi.w.Contracts.ByFunc[f]; c != nil && (c.Pure || c.AssignsNothing) {
			return &ModSet{Fams: map[string]Sort{}}
		}
	}
	if !mi.w.InModule(f) && !externalIsTop(f) {
		return &ModSet{Fams: map[string]Sort{}}
	}
	return &ModSet{Top: true}
}

// ---- read sets (for heap dependence of pure functions) ----

func (mi *ModInfo) ownReads(f *ssa.Function) *ModSet {
	ms := &ModSet{Fams: map[string]Sort{}}
	tmp := map[string]Sort{}
	for _, b := range f.Blocks {
		for _, ins := range b.Instrs {
			switch x := ins.(type) {
			case *ssa.UnOp:
				if x.Op.String() == "*" && !freshAddr(x.X, 0) {
					mi.storeTargetFams(x.X, tmp) // same families as a store to that address would touch
				}
			case *ssa.Lookup:
				if m, ok := under(x.X.Type()).(*types.Map); ok {
					mapFams(m, tmp)
				}
			case *ssa.Range:
				if m, ok := under(x.X.Type()).(*types.Map); ok {
					mapFams(m, tmp)
				}
			case ssa.CallInstruction:
				c := x.Common()
				if bi, ok := c.Value.(*ssa.Builtin); ok && bi.Name() == "len" && len(c.Args) > 0 {
					if m, ok := under(c.Args[0].Type()).(*types.Map); ok {
						mapFams(m, tmp)
					}
				}
				if bi, ok := c.Value.(*ssa.Builtin); ok && (bi.Name() == "append" || bi.Name() == "copy") && len(c.Args) > 0 {
					if sl, ok := under(c.Args[0].Type()).(*types.Slice); ok && !freshSlice(c.Args[0], 0) {
						elemStoreFams(sl.Elem(), tmp)
					}
				}
			}
		}
	}
	for k, s := range tmp {
		ms.add(k, s)
	}
	return ms
}

func (mi *ModInfo) computeReads() {
	mi.reads = map[*ssa.Function]*ModSet{}
	for _, f := range mi.w.AllFns {
		if mi.w.InModule(f) && len(f.Blocks) > 0 {
			mi.reads[f] = mi.ownReads(f)
		}
	}
	changed := true
	for changed {
		changed = false
		for f, ms := range mi.reads {
			if ms.Top {
				continue
			}
			n := mi.w.CG.Nodes[f]
			if n == nil {
				continue
			}
			for _, e := range n.Out {
				cal := e.Callee.Func
				if cm, ok := mi.reads[cal]; ok {
					if ms.union(cm) {
						changed = true
					}
				} else if !mi.w.InModule(cal) && externalIsTop(cal) {
					ms.Top = true
					ms.Fams = map[string]Sort{}
					changed = true
				}
			}
		}
	}
}

func (mi *ModInfo) Reads(f *ssa.Function) *ModSet {
	if mi.reads == nil {
		mi.computeReads()
	}
	if ms, ok := mi.reads[f]; ok {
		return ms
	}
	if !mi.w.InModule(f) && !externalIsTop(f) {
		return &ModSet{Fams: map[string]Sort{}}
	}
	return &ModSet{Top: true}
}

// IsParametric: the function lives in a file declared callback-parametric.
func (w *World) IsParametric(f *ssa.Function) bool {
	if w.Contracts == nil || (len(w.Contracts.ParametricFiles) == 0 && len(w.Contracts.ParametricFuncs) == 0) || f == nil {
		return false
	}
	if v, ok := w.parametric[f]; ok {
		return v
	}
	if w.parametric == nil {
		w.parametric = map[*ssa.Function]bool{}
	}
	file := w.FileOfFunc(f)
	res := false
	declared := f
	for declared != nil && !w.Contracts.ParametricFuncs[FuncKey(declared)] {
		declared = declared.Parent()
	}
	if declared != nil {
		// declared per function (closures nested in it included): checked, not trusted. Every dynamic call must go
		// to a function-typed parameter of the declared function, directly, through the cell a captured parameter
		// lives in, or (inside a nested closure) through a captured cell.
		paramCell := func(a *ssa.Alloc) bool {
			n := 0
			for _, r := range *a.Referrers() {
				if st, ok := r.(*ssa.Store); ok && st.Addr == a {
					if _, isP := st.Val.(*ssa.Parameter); !isP {
						return false
					}
					n++
				}
			}
			return n == 1
		}
		for _, b := range f.Blocks {
			for _, ins := range b.Instrs {
				ci, ok := ins.(ssa.CallInstruction)
				if !ok {
					continue
				}
				c := ci.Common()
				if c.IsInvoke() || c.StaticCallee() != nil {
					continue
				}
				if _, isB := c.Value.(*ssa.Builtin); isB {
					continue
				}
				okv := false
				switch x := c.Value.(type) {
				case *ssa.Parameter:
					okv = true
				case *ssa.UnOp:
					switch y := x.X.(type) {
					case *ssa.Alloc:
						okv = paramCell(y)
					case *ssa.FreeVar:
						okv = f != declared
					}
				}
				if !okv {
					panic(unsupported("callback-parametric func %s: %s calls a function value that is not one of the declared function's parameters (%s)", FuncKey(declared), FuncKey(f), c.Value))
				}
			}
		}
		res = true
	}
	for _, p := range w.Contracts.ParametricFiles {
		if strings.HasSuffix(file, "/"+p) {
			res = true
		}
	}
	w.parametric[f] = res
	return res
}

// funcArgTargets: the functions that function-typed arguments of a call denote; ok=false when some
// function-typed argument is not a literal closure / function (its target is unknown).
func funcArgTargets(c *ssa.CallCommon, caller *ssa.Function, w *World) (fns []*ssa.Function, ok bool) {
	ok = true
	for _, a := range c.Args {
		if _, isFn := under(a.Type()).(*types.Signature); !isFn {
			continue
		}
		switch x := a.(type) {
		case *ssa.MakeClosure:
			fns = append(fns, x.Fn.(*ssa.Function))
		case *ssa.Function:
			fns = append(fns, x)
		case *ssa.Parameter, *ssa.FreeVar:
			// forwarding a callback the caller itself received: accounted for at the caller's callers
			if !w.IsParametric(caller) {
				ok = false
			}
		case *ssa.Const:
			// nil
		default:
			// e.g. a ChangeType of a closure
			if ct, isCT := x.(*ssa.ChangeType); isCT {
				if mc, isMC := ct.X.(*ssa.MakeClosure); isMC {
					fns = append(fns, mc.Fn.(*ssa.Function))
					continue
				}
				if fn, isF := ct.X.(*ssa.Function); isF {
					fns = append(fns, fn)
					continue
				}
				if _, isP := ct.X.(*ssa.Parameter); isP && w.IsParametric(caller) {
					continue
				}
			}
			ok = false
		}
	}
	return fns, ok
}

// unionFiltered adds callee's effect to caller's, dropping what the callee (a closure of the caller) only
// writes into the caller's own caller-invisible cells.
func (mi *ModInfo) unionFiltered(ms, cm *ModSet, caller, callee *ssa.Function) bool {
	local := mi.closureLocalFams(caller, callee)
	if len(local) == 0 || cm.Top {
		return ms.union(cm)
	}
	filtered := &ModSet{Fams: map[string]Sort{}, NonFresh: map[string]bool{}}
	for f, s := range cm.Fams {
		if local[f] {
			continue
		}
		filtered.Fams[f] = s
		if cm.NonFresh[f] {
			filtered.NonFresh[f] = true
		}
	}
	return ms.union(filtered)
}

// stubAssigns: the families named by the explicit frame of a library stub (nil when there is none).
func (w *World) stubAssigns(cal *ssa.Function) map[string]Sort {
	if w.Contracts == nil || w.InModule(cal) {
		return nil
	}
	con := w.Contracts.ByFunc[cal]
	if con == nil || len(con.Assigns) == 0 {
		return nil
	}
	out := map[string]Sort{}
	for _, a := range con.Assigns {
		// F#<struct type>#<field>
		parts := strings.Split(a, "#")
		if len(parts) != 3 || parts[0] != "F" {
			panic(unsupported("stub %s: assigns wants F#<struct>#<field>, got %q", FuncKey(cal), a))
		}
		t, err := w.resolveType(parts[1], nil)
		if err != nil {
			panic(unsupported("stub %s: %v", FuncKey(cal), err))
		}
		st, ok := under(t).(*types.Struct)
		if !ok {
			panic(unsupported("stub %s: %s is not a struct", FuncKey(cal), parts[1]))
		}
		found := false
		for i := 0; i < st.NumFields(); i++ {
			if st.Field(i).Name() == parts[2] {
				storeFams(st.Field(i).Type(), famField(structKey(t), parts[2]), out, false)
				found = true
			}
		}
		if !found {
			panic(unsupported("stub %s: no field %s in %s", FuncKey(cal), parts[2], parts[1]))
		}
	}
	return out
}

func siteCommon(ci ssa.CallInstruction) *ssa.CallCommon {
	if ci == nil {
		return nil
	}
	return ci.Common()
}

// decodeEffect: the module-visible effect of a reflection-based decoder call whose target type is known at the call
// site (yaml.v3 Decode / DecodeWithOptions / Unmarshal with a `&x` argument): the decoder writes the object graph it
// is given (every field, element, box and map of every type reachable from the static type of x) and calls the
// UnmarshalYAML methods of the module; it writes nothing else that module code can observe (library fact, listed in
// evidence). nil when the call is not of that shape.
func (w *World) decodeEffect(cal *ssa.Function, c *ssa.CallCommon, mi *ModInfo) *ModSet {
	if c == nil || cal == nil {
		return nil
	}
	if strings.Contains(cal.String(), "github.com/alecthomas/participle/v2.Parser[") && (strings.HasPrefix(cal.Name(), "ParseString") || strings.HasPrefix(cal.Name(), "ParseBytes")) {
		// participle builds the syntax tree in objects it allocates itself and calls only the capture methods and
		// the custom parse functions of the grammar, all of which receive the lexer (library fact, listed in evidence)
		ms := &ModSet{Fams: map[string]Sort{}, NonFresh: map[string]bool{}}
		for _, f := range w.AllFns {
			if !w.InModule(f) {
				continue
			}
			for _, p := range f.Params {
				if typeKey(p.Type()) == "*github.com/alecthomas/participle/v2/lexer.PeekingLexer" {
					if fm, ok := mi.mods[f]; ok {
						ms.union(fm)
					}
					break
				}
			}
		}
		return ms
	}
	argIdx := -1
	if os.Getenv("GOVC_DEBUG_DECODE") != "" && strings.Contains(cal.String(), "yaml.v3") {
		fmt.Fprintf(os.Stderr, "DECODE? %q\n", cal.String())
	}
	switch cal.String() {
	case "(*gopkg.in/yaml.v3.Decoder).Decode", "(*gopkg.in/yaml.v3.Node).Decode", "(*gopkg.in/yaml.v3.Node).DecodeWithOptions":
		argIdx = 1
	case "gopkg.in/yaml.v3.Unmarshal":
		argIdx = 1
	case "gopkg.in/yaml.v3.NewDecoder", "(*gopkg.in/yaml.v3.Decoder).KnownFields":
		return &ModSet{Fams: map[string]Sort{}}
	default:
		return nil
	}
	if argIdx >= len(c.Args) {
		return nil
	}
	mk, ok := c.Args[argIdx].(*ssa.MakeInterface)
	if !ok {
		return nil
	}
	pt, ok := under(mk.X.Type()).(*types.Pointer)
	if !ok {
		return nil
	}
	ms := &ModSet{Fams: map[string]Sort{}, NonFresh: map[string]bool{}}
	fams := map[string]Sort{}
	seen := map[string]bool{}
	if yamlUnmarshalerTypes == nil {
		// types whose decoding yaml.v3 hands over to their own UnmarshalYAML (decoder.prepare calls the method for every
		// addressable value and every pointer whose type implements yaml.Unmarshaler, and does not fill the fields
		// by reflection then): library fact, listed in evidence
		yamlUnmarshalerTypes = map[string]bool{}
		for _, f := range w.AllFns {
			if f.Name() == "UnmarshalYAML" && f.Signature.Recv() != nil && w.InModule(f) && f.Signature.Params().Len() == 1 &&
				typeKey(f.Signature.Params().At(0).Type()) == "*gopkg.in/yaml.v3.Node" {
				rt := types.Unalias(f.Signature.Recv().Type())
				if p, isPtr := under(rt).(*types.Pointer); isPtr {
					rt = types.Unalias(p.Elem())
				}
				yamlUnmarshalerTypes[typeKey(rt)] = true
			}
		}
	}
	if !reflectWriteFams(pt.Elem(), fams, seen, true) {
		return nil
	}
	for f, so := range fams {
		ms.add(f, so)
		ms.markNonFresh(f)
	}
	for _, f := range w.AllFns {
		if f.Name() == "UnmarshalYAML" && f.Signature.Recv() != nil && w.InModule(f) {
			// only the custom unmarshalers of types that occur in the target's object graph can be called
			rt := f.Signature.Recv().Type()
			ok := seen[typeKey(types.Unalias(rt))]
			if pt, isPtr := under(rt).(*types.Pointer); isPtr && seen[typeKey(types.Unalias(pt.Elem()))] {
				ok = true
			}
			if !ok {
				continue
			}
			if fm, ok := mi.mods[f]; ok {
				ms.union(fm)
			}
		}
	}
	return ms
}

var yamlUnmarshalerTypes map[string]bool

// reflectWriteFams collects the families of every cell in an object graph of static type t. false when the graph
// can hold something the analysis cannot enumerate (a non-empty interface, a channel, a function).
func reflectWriteFams(t types.Type, out map[string]Sort, seen map[string]bool, top bool) bool {
	k := typeKey(types.Unalias(t))
	if seen[k] {
		return true
	}
	seen[k] = true
	switch u := under(t).(type) {
	case *types.Basic:
		if top {
			boxStoreFams(t, out)
		}
		return true
	case *types.Pointer:
		if top {
			boxStoreFams(t, out)
		}
		if _, isStruct := under(u.Elem()).(*types.Struct); !isStruct {
			boxStoreFams(u.Elem(), out)
		}
		return reflectWriteFams(u.Elem(), out, seen, false)
	case *types.Struct:
		if yamlUnmarshalerTypes[k] {
			// decoded by its own UnmarshalYAML, whose effect decodeEffect adds (the type is in `seen`)
			return true
		}
		structStoreFams(t, out)
		for i := 0; i < u.NumFields(); i++ {
			if !u.Field(i).Exported() || reflect.StructTag(u.Tag(i)).Get("yaml") == "-" {
				// reflection cannot set an unexported field and yaml.v3 skips a field tagged `yaml:"-"`; the cell
				// families of the struct are still listed as written (structStoreFams is per struct, not per field)
				continue
			}
			if !reflectWriteFams(u.Field(i).Type(), out, seen, false) {
				return false
			}
		}
		return true
	case *types.Slice:
		if top {
			boxStoreFams(t, out)
		}
		elemStoreFams(u.Elem(), out)
		return reflectWriteFams(u.Elem(), out, seen, false)
	case *types.Array:
		elemStoreFams(u.Elem(), out)
		return reflectWriteFams(u.Elem(), out, seen, false)
	case *types.Map:
		if top {
			boxStoreFams(t, out)
		}
		mapFams(u, out)
		return reflectWriteFams(u.Key(), out, seen, false) && reflectWriteFams(u.Elem(), out, seen, false)
	case *types.Interface:
		if top {
			boxStoreFams(t, out)
		}
		if u.NumMethods() == 0 {
			// decoded into map[string]interface{}, []interface{} and scalars, all freshly allocated
			return true
		}
		// a module interface field is filled by the owner's UnmarshalYAML (its effect is added separately)
		return true
	}
	if os.Getenv("GOVC_DEBUG_DECODE") != "" {
		fmt.Fprintf(os.Stderr, "REFLECT-UNSUPPORTED %s\n", t)
	}
	return false
}
