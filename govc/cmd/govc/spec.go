package main

import (
	"fmt"
	"strconv"
	"strings"
	"unicode"
)

// ---- spec expression AST ----

type SExpr interface{}

type SIdent struct{ Name string }
type SLit struct {
	Kind string // int, string, bool, nil
	Val  string
}
type SBin struct {
	Op   string
	L, R SExpr
}
type SUn struct {
	Op string
	X  SExpr
}
type SSel struct {
	X    SExpr
	Name string
}
type SIdx struct{ X, I SExpr }
type SCall struct {
	Fn   SExpr
	Args []SExpr
}
type SQuant struct {
	Forall  bool
	Var     string
	Lo, Hi  SExpr  // nil when typed
	VarType *SType // when "forall k T :: ..."
	Body    SExpr
}
type SOld struct {
	X        SExpr
	HeapOnly bool // oldheap(e): fields are read in the entry heap, ghost observers (lastResult, called) stay current
}
type STypeOf struct{ X SExpr }
type SType struct{ Text string }
type SAssert struct {
	X SExpr
	T *SType
}
type SIte struct{ C, A, B SExpr }

// ---- lexer ----

type tok struct {
	k string // id, int, str, op, eof
	s string
}

func lexSpec(src string) ([]tok, error) {
	var out []tok
	i := 0
	for i < len(src) {
		c := src[i]
		switch {
		case c == ' ' || c == '\t' || c == '\n':
			i++
		case unicode.IsLetter(rune(c)) || c == '_':
			j := i
			for j < len(src) && (unicode.IsLetter(rune(src[j])) || unicode.IsDigit(rune(src[j])) || src[j] == '_' || src[j] == '$') {
				j++
			}
			out = append(out, tok{"id", src[i:j]})
			i = j
		case c >= '0' && c <= '9':
			j := i
			for j < len(src) && (src[j] >= '0' && src[j] <= '9' || src[j] == 'x' || src[j] >= 'a' && src[j] <= 'f' || src[j] >= 'A' && src[j] <= 'F' || src[j] == '_') {
				// stop at ".." range operator
				j++
			}
			out = append(out, tok{"int", src[i:j]})
			i = j
		case c == '"':
			j := i + 1
			for j < len(src) && src[j] != '"' {
				if src[j] == '\\' {
					j++
				}
				j++
			}
			if j >= len(src) {
				return nil, fmt.Errorf("unterminated string")
			}
			s, err := strconv.Unquote(src[i : j+1])
			if err != nil {
				return nil, err
			}
			out = append(out, tok{"str", s})
			i = j + 1
		case c == '`':
			j := strings.IndexByte(src[i+1:], '`')
			if j < 0 {
				return nil, fmt.Errorf("unterminated raw string")
			}
			out = append(out, tok{"str", src[i+1 : i+1+j]})
			i = i + j + 2
		default:
			ops := []string{"==>", "<==>", "::", "..", "==", "!=", "<=", ">=", "&&", "||", "&^", "<<", ">>"}
			matched := false
			for _, o := range ops {
				if strings.HasPrefix(src[i:], o) {
					out = append(out, tok{"op", o})
					i += len(o)
					matched = true
					break
				}
			}
			if !matched {
				if strings.ContainsRune("+-*/%!<>()[].,:&|?{}^", rune(c)) {
					out = append(out, tok{"op", string(c)})
					i++
				} else {
					return nil, fmt.Errorf("unexpected character %q", c)
				}
			}
		}
	}
	out = append(out, tok{"eof", ""})
	return out, nil
}

type specParser struct {
	toks []tok
	p    int
}

func ParseSpec(src string) (e SExpr, err error) {
	toks, err := lexSpec(src)
	if err != nil {
		return nil, err
	}
	ps := &specParser{toks: toks}
	defer func() {
		if r := recover(); r != nil {
			if s, ok := r.(string); ok {
				err = fmt.Errorf("spec parse error: %s in %q", s, src)
				return
			}
			panic(r)
		}
	}()
	e = ps.expr()
	if ps.peek().k != "eof" {
		panic("trailing input at " + ps.peek().s)
	}
	return e, nil
}

func (p *specParser) peek() tok { return p.toks[p.p] }
func (p *specParser) next() tok { t := p.toks[p.p]; p.p++; return t }
func (p *specParser) isOp(s string) bool {
	t := p.peek()
	return t.k == "op" && t.s == s
}
func (p *specParser) accept(s string) bool {
	if p.isOp(s) {
		p.p++
		return true
	}
	return false
}
func (p *specParser) expect(s string) {
	if !p.accept(s) {
		panic("expected " + s + " got " + p.peek().s)
	}
}
func (p *specParser) isId(s string) bool {
	t := p.peek()
	return t.k == "id" && t.s == s
}

func (p *specParser) expr() SExpr { return p.iff() }

func (p *specParser) iff() SExpr {
	l := p.implies()
	for p.accept("<==>") {
		r := p.implies()
		l = SBin{"<==>", l, r}
	}
	return l
}

func (p *specParser) implies() SExpr {
	l := p.or()
	if p.accept("==>") {
		r := p.implies()
		return SBin{"==>", l, r}
	}
	return l
}

func (p *specParser) or() SExpr {
	l := p.and()
	for p.accept("||") {
		l = SBin{"||", l, p.and()}
	}
	return l
}

func (p *specParser) and() SExpr {
	l := p.cmp()
	for p.accept("&&") {
		l = SBin{"&&", l, p.cmp()}
	}
	return l
}

func (p *specParser) cmp() SExpr {
	l := p.add()
	for {
		t := p.peek()
		if t.k == "op" && (t.s == "==" || t.s == "!=" || t.s == "<" || t.s == "<=" || t.s == ">" || t.s == ">=") {
			p.p++
			l = SBin{t.s, l, p.add()}
			continue
		}
		if t.k == "id" && t.s == "in" {
			p.p++
			l = SBin{"in", l, p.add()}
			continue
		}
		return l
	}
}

func (p *specParser) add() SExpr {
	l := p.mul()
	for {
		t := p.peek()
		if t.k == "op" && (t.s == "+" || t.s == "-" || t.s == "|" || t.s == "^") {
			p.p++
			l = SBin{t.s, l, p.mul()}
			continue
		}
		return l
	}
}

func (p *specParser) mul() SExpr {
	l := p.unary()
	for {
		t := p.peek()
		if t.k == "op" && (t.s == "*" || t.s == "/" || t.s == "%" || t.s == "&" || t.s == "&^" || t.s == "<<" || t.s == ">>") {
			p.p++
			l = SBin{t.s, l, p.unary()}
			continue
		}
		return l
	}
}

func (p *specParser) unary() SExpr {
	if p.accept("!") {
		return SUn{"!", p.unary()}
	}
	if p.accept("-") {
		return SUn{"-", p.unary()}
	}
	if p.accept("*") {
		return SUn{"*", p.unary()}
	}
	return p.postfix()
}

func (p *specParser) parseType() *SType {
	var b strings.Builder
	for p.accept("*") {
		b.WriteByte('*')
	}
	if p.accept("[") {
		p.expect("]")
		b.WriteString("[]")
		b.WriteString(p.parseType().Text)
		return &SType{b.String()}
	}
	t := p.next()
	if t.k != "id" {
		panic("type expected, got " + t.s)
	}
	b.WriteString(t.s)
	for p.isOp(".") || p.isOp("/") {
		// qualified: pkg.Name or path/pkg.Name
		sep := p.next().s
		n := p.next()
		if n.k != "id" {
			panic("type name expected")
		}
		b.WriteString(sep)
		b.WriteString(n.s)
	}
	return &SType{b.String()}
}

func (p *specParser) postfix() SExpr {
	x := p.primary()
	for {
		switch {
		case p.accept("."):
			if p.accept("(") {
				t := p.parseType()
				p.expect(")")
				x = SAssert{x, t}
				continue
			}
			n := p.next()
			if n.k != "id" {
				panic("field name expected")
			}
			x = SSel{x, n.s}
		case p.accept("["):
			i := p.expr()
			p.expect("]")
			x = SIdx{x, i}
		case p.isOp("("):
			p.p++
			var args []SExpr
			for !p.isOp(")") {
				args = append(args, p.expr())
				if !p.accept(",") {
					break
				}
			}
			p.expect(")")
			x = SCall{x, args}
		default:
			return x
		}
	}
}

func (p *specParser) primary() SExpr {
	t := p.next()
	switch t.k {
	case "int":
		return SLit{"int", strings.ReplaceAll(t.s, "_", "")}
	case "str":
		return SLit{"string", t.s}
	case "id":
		switch t.s {
		case "true", "false":
			return SLit{"bool", t.s}
		case "nil":
			return SLit{"nil", ""}
		case "old":
			p.expect("(")
			e := p.expr()
			p.expect(")")
			return SOld{X: e}
		case "oldheap":
			p.expect("(")
			e := p.expr()
			p.expect(")")
			return SOld{X: e, HeapOnly: true}
		case "typeof":
			p.expect("(")
			e := p.expr()
			p.expect(")")
			return STypeOf{e}
		case "type":
			p.expect("(")
			ty := p.parseType()
			p.expect(")")
			return ty
		case "ite":
			p.expect("(")
			c := p.expr()
			p.expect(",")
			a := p.expr()
			p.expect(",")
			b := p.expr()
			p.expect(")")
			return SIte{c, a, b}
		case "forall", "exists":
			v := p.next()
			if v.k != "id" {
				panic("quantifier variable expected")
			}
			q := SQuant{Forall: t.s == "forall", Var: v.s}
			if p.isId("in") {
				p.p++
				q.Lo = p.add()
				p.expect("..")
				q.Hi = p.add()
			} else {
				q.VarType = p.parseType()
			}
			p.expect("::")
			q.Body = p.expr()
			return q
		}
		return SIdent{t.s}
	case "op":
		if t.s == "(" {
			e := p.expr()
			p.expect(")")
			return e
		}
	}
	panic("unexpected token " + t.s)
}
