package main

import (
	"fmt"
	"go/ast"
	"go/constant"
	"go/token"
	"go/types"
	"sort"
	"strings"

	"golang.org/x/tools/go/ssa"
)

type Obligation struct {
	ID      string
	Kind    string
	Func    string
	Text    string
	Props   []string
	Pos     string
	mark    int
	reach   Term
	cond    Term // must hold; query asserts its negation
	sc      *Script
	CoverOf string // for vacuity covers: expected sat
	Expect  string // "unsat" (default) or "sat" for cover queries
	Clause  *Clause

	lockOK bool
	presolved bool // decided without a solver (STRUCT facts)

	// results
	Status string // unsat, sat, unknown, timeout, error
	Solver string
	Ms     int64
	Model  string
}

func (o *Obligation) Query(withModel bool) string { return o.QueryVariant(0) }

// HasVariant: the goal has a second, logically equivalent formulation (with the redundant ground instances of the
// quantifiers that are to be proved)
func (o *Obligation) HasVariant() bool {
	return o.sc != nil && (strings.Contains(o.cond.S, "(govc_opt ") || strings.Contains(o.sc.Prefix(o.mark), "(govc_opt "))
}

func (o *Obligation) QueryVariant(variant int) string {
	var b strings.Builder
	b.WriteString("(set-option :produce-models true)\n(set-logic ALL)\n")
	if variant == 0 {
		b.WriteString("(define-fun govc_opt ((b Bool)) Bool true)\n")
	} else {
		b.WriteString("(define-fun govc_opt ((b Bool)) Bool b)\n")
	}
	b.WriteString(o.sc.Prefix(o.mark))
	b.WriteString("\n(assert " + o.reach.S + ")\n")
	if o.Expect != "sat" && o.Expect != "notunsat" {
		b.WriteString("(assert (not " + o.cond.S + "))\n")
	}
	b.WriteString("(check-sat)\n")
	return b.String()
}

type loopInfo struct {
	headState *State
	header  *ssa.BasicBlock
	ordinal int
	body    map[int]bool
	backs   []*ssa.BasicBlock
	mods    *ModSet
}

type retInfo struct {
	reach Term
	val   Val
	st    *State
	blk   int
}

type frame struct {
	fn    *ssa.Function
	vals  map[ssa.Value]Val
	reach map[int]Term
	out   map[int]*State
	edge  map[[2]int]Term
	loops map[int]*loopInfo // by header index
	rets  []retInfo
	depth int
	top   bool
	entry *State
	// loop invariants bookkeeping at top level
	phiOverride map[string]Val
	curBlock    *ssa.BasicBlock
	curState    *State
	params      []Val
	freeVars    []Val
	rangeOf     map[*ssa.Range]Val
	locals      map[*ssa.Alloc]bool
	sliceCls    []*sliceClassInfo
	reachMemo   map[[2]int]bool
	curIns      ssa.Instruction
	own         bool // inlined anonymous closure of the function under verification: its obligations count
	ownCtx      bool         // inlined helper called from the function's own code with one of its closures
	defers      []*ssa.Defer // deferred calls that run at every exit (see deferRunsAtEveryExit), in registration order
}

type FnVC struct {
	constCells     map[string]Val // address term -> value of function-typed cells that are written once (see exec.go)
	optInst        bool     // set by quant() for the next underBinder call
	unboundClauses []string // postcondition / iteration clauses that did not bind (reported, no obligation)
	w     *World
	fn    *ssa.Function
	sc    *Script
	he    *HeapEnv
	con   *Contract
	obls  []*Obligation
	idCnt map[string]int
	notes map[string]bool
	tags  map[string]int
	ufs   map[string]bool
	top   *frame
	glob  map[string]Term
	nGlob int
	// exit
	exitReach Term
	exitVal   Val
	exitState *State
	props     []string
	inlining  map[*ssa.Function]int
	depsCache map[*ssa.Function][]famSort
	freshRefs map[string]bool
	inTypeInv bool
	idxTerms  []Term
	seenFormats map[string]bool
	conFormats  map[string]bool
	extraFormats map[string]bool
	unsupp    string
}

func NewFnVC(w *World, fn *ssa.Function) *FnVC {
	sc := NewScript()
	v := &FnVC{w: w, fn: fn, sc: sc, idCnt: map[string]int{}, notes: map[string]bool{}, ufs: map[string]bool{}, glob: map[string]Term{}, inlining: map[*ssa.Function]int{}, freshRefs: map[string]bool{}}
	v.he = &HeapEnv{sc: sc, sorts: map[string]Sort{}}
	v.he.immutable = func(fam string) bool {
		for p := range w.Contracts.Immutable {
			if famIsUnder(fam, p) {
				return true
			}
		}
		return false
	}
	v.con = w.Contracts.ByFunc[fn]
	return v
}

func (v *FnVC) note(s string) { v.notes[s] = true }

// Build generates all obligations of the function. Unsupported constructs make it return an error.
func (v *FnVC) Build() (err error) {
	defer func() {
		if r := recover(); r != nil {
			if u, ok := r.(unsupportedErr); ok {
				err = u
				return
			}
			panic(r)
		}
	}()
	if len(v.fn.Blocks) == 0 {
		return unsupported("no body")
	}
	st := &State{heap: map[string]Term{}, ghost: map[string]Term{}, allocPtr: v.sc.DeclareConst("allocptr@0", SInt)}
	v.sc.Assert(Le(tZero, st.allocPtr))
	fr := &frame{fn: v.fn, top: true}
	v.top = fr
	for _, p := range v.fn.Params {
		fr.params = append(fr.params, v.freshTyped("p."+p.Name(), p.Type(), st, tTrue))
	}
	for _, fv := range v.fn.FreeVars {
		val := v.freshTyped("fv."+fv.Name(), fv.Type(), st, tTrue)
		fr.freeVars = append(fr.freeVars, val)
		if sc, ok := val.(Sc); ok {
			if _, isPtr := under(fv.Type()).(*types.Pointer); isPtr {
				v.freshRefs[sc.T.S] = true // captured variables are cells of the enclosing function
				v.sc.Assert(Lt(tZero, sc.T))
			}
		}
	}
	fr.entry = st.clone()
	fr.vals = map[ssa.Value]Val{}
	for i, p := range v.fn.Params {
		fr.vals[p] = fr.params[i]
	}
	for i, p := range v.fn.FreeVars {
		fr.vals[p] = fr.freeVars[i]
	}
	// global axioms
	for _, ax := range v.w.Contracts.Axioms {
		env := &specEnv{v: v, fr: fr, st: st, old: st, pol: -1}
		if ax.Pkg != "" {
			if p := env.pkgOfFn(); p == nil || shortPkg(p.Path()) != ax.Pkg {
				continue
			}
		}
		t := env.evalBool(ax.Expr)
		v.sc.Assert(t)
	}
	// library calling conventions
	if v.w.Contracts.MethodNonNil[v.fn.Name()] && v.fn.Signature.Recv() != nil {
		for i, p := range v.fn.Params {
			if _, isPtr := under(p.Type()).(*types.Pointer); isPtr {
				if sc, ok := fr.params[i].(Sc); ok {
					v.sc.Assert(Not(Eq(sc.T, tZero)))
				}
			}
		}
	}
	// requires
	if v.con != nil {
		for _, c := range v.con.Requires {
			env := &specEnv{v: v, fr: fr, st: st, old: st, pol: -1}
			t := env.evalBool(c.Expr)
			v.sc.Assert(t)
		}
		// cover: precondition satisfiable
		if len(v.con.Requires) > 0 {
			v.addObl("COVER-pre", "requires", token.NoPos, tTrue, tTrue, nil, "sat")
		}
	}
	v.runFrame(fr, st, tTrue)
	// vacuity guards: every return of a contracted function must be reachable under the collected assumptions
	if v.con != nil && (len(v.con.Ensures) > 0 || len(v.con.Iterations) > 0 || len(v.con.Variants) > 0) {
		live := staticallyLiveBlocks(v.fn)
		for i, r := range fr.rets {
			if !live[r.blk] {
				continue // a return behind a branch on constants (`var err error; if err != nil {...}`) is dead code, not vacuity
			}
			if why, dead := v.con.DeadReturns[i]; dead {
				v.note(fmt.Sprintf("return %d of %s is declared unreachable (%s): no vacuity guard there", i, FuncKey(v.fn), why))
				continue
			}
			v.addObl("CANARY", fmt.Sprintf("false-at-return%d", i), token.NoPos, r.reach, tTrue, nil, "notunsat")
		}
	}
	// exit merge
	if len(fr.rets) > 0 {
		var ins []edgeState
		var rs []Term
		for _, r := range fr.rets {
			ins = append(ins, edgeState{r.reach, r.st})
			rs = append(rs, r.reach)
		}
		v.exitReach = v.sc.Define("exitreach", Or(rs...))
		v.exitState = v.he.merge(ins)
		v.exitVal = v.mergeRets(fr.rets, v.fn.Signature.Results())
		if v.con != nil {
			for _, c := range v.con.Ensures {
				env := &specEnv{v: v, fr: fr, st: v.exitState, old: fr.entry, result: v.exitVal, resType: v.fn.Signature.Results(), pol: 1}
				t, bound := v.evalClause(env, c)
				if !bound {
					continue
				}
				name := c.Name
				if name == "" {
					name = normText(c.Text)
				}
				o := v.addObl("POST", name, token.NoPos, v.exitReach, t, c.Props, "")
				o.Clause = c
			}
		}
	}
	return nil
}

func (v *FnVC) mergeRets(rets []retInfo, res *types.Tuple) Val {
	if res.Len() == 0 {
		return TupleV{}
	}
	var t types.Type = res
	if res.Len() == 1 {
		t = res.At(0).Type()
	}
	cur := v.scalarizeVal(rets[len(rets)-1].val)
	for i := len(rets) - 2; i >= 0; i-- {
		cur = valIte(rets[i].reach, v.scalarizeVal(rets[i].val), cur, t)
	}
	return cur
}

// idKey: the function part of obligation ids. A closure bound by what it is (parent@localVar, parent@emits:"literal")
// keeps the identity of its obligations when closures are added, removed or nested differently around it
// (parent$13 becoming parent$13$1).
func (v *FnVC) idKey() string {
	if con := v.w.Contracts.ByFunc[v.fn]; con != nil && strings.Contains(con.Key, "@") {
		return con.Key
	}
	return FuncKey(v.fn)
}

func (v *FnVC) addObl(kind, text string, pos token.Pos, reach, cond Term, props []string, expect string) *Obligation {
	fk := FuncKey(v.fn)
	idk := v.idKey()
	base := fmt.Sprintf("%s#%s:%s", idk, kind, text)
	k := v.idCnt[base]
	v.idCnt[base]++
	o := &Obligation{ID: fmt.Sprintf("%s#%d", base, k), Kind: kind, Func: fk, Text: text, mark: v.sc.Mark(), reach: reach, cond: cond, sc: v.sc, Expect: expect}
	if pos.IsValid() {
		p := v.w.Fset.Position(pos)
		o.Pos = fmt.Sprintf("%s:%d", strings.TrimPrefix(p.Filename, "/repo/"), p.Line)
	}
	o.Props = props
	v.obls = append(v.obls, o)
	return o
}

// safe adds a safety obligation and then assumes it.
func (v *FnVC) safe(fr *frame, kind string, ins ssa.Instruction, cond Term) {
	reach := fr.reach[fr.curBlock.Index]
	if (fr.top || fr.own) && cond.S != "true" {
		txt := v.exprTextFor(kind, ins)
		v.addObl("SAFE-"+kind, txt, ins.Pos(), reach, cond, nil, "")
	}
	v.sc.Assert(Implies(reach, cond))
}

func (v *FnVC) exprTextFor(kind string, ins ssa.Instruction) string {
	pos := ins.Pos()
	want := func(n ast.Node) bool {
		switch kind {
		case "index":
			switch n.(type) {
			case *ast.IndexExpr, *ast.SliceExpr, *ast.RangeStmt:
				return true
			}
		case "assert":
			_, ok := n.(*ast.TypeAssertExpr)
			return ok
		case "nil":
			switch n.(type) {
			case *ast.SelectorExpr, *ast.StarExpr, *ast.CallExpr, *ast.IndexExpr, *ast.RangeStmt:
				return true
			}
		case "panic", "make":
			_, ok := n.(*ast.CallExpr)
			return ok
		case "div":
			_, ok := n.(*ast.BinaryExpr)
			return ok
		case "nilmap":
			switch n.(type) {
			case *ast.AssignStmt, *ast.IndexExpr, *ast.IncDecStmt:
				return true
			}
		}
		_, ok := n.(ast.Expr)
		return ok
	}
	v.w.indexByContainer = kind == "index"
	t := v.w.ExprText(pos, want)
	v.w.indexByContainer = false
	if _, isRange := ins.(*ssa.IndexAddr); isRange && strings.HasPrefix(t, "for ") {
		if k := strings.Index(t, "{"); k > 0 {
			t = strings.TrimSpace(t[:k])
		}
	}
	if t == "" {
		t = strings.TrimSpace(ins.String())
		if len(t) > 80 {
			t = t[:80]
		}
	}
	return t
}

// ---------- fresh values with type assumptions ----------

func (v *FnVC) freshTyped(name string, t types.Type, st *State, guard Term) Val {
	if kindOf(t) == kTuple {
		tu := under(t).(*types.Tuple)
		tv := TupleV{E: make([]Val, tu.Len())}
		g := guard
		// (value..., error) results: the non-error components are meaningful only when the error is nil
		if n := tu.Len(); n >= 2 && isErrorType(tu.At(n-1).Type()) {
			ev := v.freshTyped(fmt.Sprintf("%s.%d", name, n-1), tu.At(n-1).Type(), st, guard)
			tv.E[n-1] = ev
			g = And(guard, Eq(ev.(IfaceV).Tag, tZero))
		}
		for i := 0; i < tu.Len(); i++ {
			if tv.E[i] == nil {
				tv.E[i] = v.freshTyped(fmt.Sprintf("%s.%d", name, i), tu.At(i).Type(), st, g)
			}
		}
		return tv
	}
	sorts := flatSorts(t)
	ts := make([]Term, len(sorts))
	for i, s := range sorts {
		ts[i] = v.sc.Fresh(name, s)
	}
	val, _ := unflatten(t, ts)
	v.assumeTyped(val, t, st, guard)
	return val
}

// assumeTyped records the facts every well-typed Go value satisfies.
func (v *FnVC) assumeTyped(val Val, t types.Type, st *State, guard Term) {
	switch x := val.(type) {
	case Sc:
		if n, isFlags := v.w.Contracts.FlagSets[typeKey(types.Unalias(t))]; isFlags && n > 0 && n < 62 {
			// declared `flagset T n`: a value of T is a set of the n flags, nothing above them is ever set
			v.sc.Assert(Implies(guard, And(Le(tZero, x.T), Lt(x.T, IntLit(int64(1)<<uint(n))))))
		} else if lo, hi, ok := intRange(t); ok {
			v.sc.Assert(Implies(guard, And(Le(BigLit(lo), x.T), Le(x.T, BigLit(hi)))))
		} else if isRefType(t) && st != nil {
			v.sc.Assert(Implies(guard, Le(x.T, st.allocPtr)))
			v.typeInvariants(x, t, st, guard)
		}
	case SliceV:
		v.sc.Assert(Implies(guard, And(Le(tZero, x.Len), Le(x.Len, IntLit(9223372036854775807)), Le(tZero, x.Off), Implies(Eq(x.Arr, tZero), Eq(x.Len, tZero)))))
		if st != nil {
			v.sc.Assert(Implies(guard, Le(x.Arr, st.allocPtr)))
		}
	case IfaceV:
		v.sc.Assert(Implies(guard, And(Le(tZero, x.Tag), Implies(Eq(x.Tag, tZero), Eq(x.Ref, tZero)))))
		// static interface type restricts dynamic types
		if it, ok := under(t).(*types.Interface); ok && it.NumMethods() > 0 {
			v.sc.Assert(Implies(guard, Or(Eq(x.Tag, tZero), v.implTerm(t, x.Tag))))
		}
		if st != nil {
			v.sc.Assert(Implies(guard, Le(x.Ref, st.allocPtr)))
		}
		// global invariant (guaranteed at every MakeInterface by a SAFE-typednil obligation):
		// an interface never holds a nil pointer of a module pointer type
		v.sc.Assert(Implies(And(guard, v.isPtrTag(x.Tag)), Not(Eq(x.Ref, tZero))))
	case StructV:
		st2 := under(t).(*types.Struct)
		for i, f := range x.F {
			v.assumeTyped(f, st2.Field(i).Type(), st, guard)
		}
	case TupleV:
		tu := under(t).(*types.Tuple)
		for i, f := range x.E {
			v.assumeTyped(f, tu.At(i).Type(), st, guard)
		}
	}
}

// typeInvariants asserts the declared invariants of a pointer-typed value (library data structures).
func (v *FnVC) typeInvariants(x Sc, t types.Type, st *State, guard Term) {
	cs := v.w.Contracts
	if len(cs.TypeInvs) == 0 || v.inTypeInv || v.top == nil {
		return
	}
	if cs.typeInvByKey == nil {
		cs.typeInvByKey = map[string][]*TypeInv{}
		for _, ti := range cs.TypeInvs {
			ty, err := v.w.resolveType(ti.TypeText, nil)
			if err != nil {
				panic(unsupported("type-invariant: %v", err))
			}
			cs.typeInvByKey[typeKey(ty)] = append(cs.typeInvByKey[typeKey(ty)], ti)
		}
	}
	invs := cs.typeInvByKey[typeKey(types.Unalias(t))]
	if len(invs) == 0 {
		return
	}
	key := "tinv:" + x.T.S
	if v.ufs[key] {
		return
	}
	v.ufs[key] = true
	v.inTypeInv = true
	defer func() { v.inTypeInv = false }()
	for _, ti := range invs {
		env := &specEnv{v: v, fr: v.top, st: st, old: st, bound: map[string]specVal{ti.Var: {V: x, T: t}}, specPkg: v.w.pkgByShort(ti.Clause.Pkg), pol: -1}
		env.guard = And(guard, Not(Eq(x.T, tZero)))
		body := env.evalBool(ti.Clause.Expr)
		v.sc.Assert(Implies(And(guard, Not(Eq(x.T, tZero))), body))
	}
}

// ---------- type tags ----------

func (v *FnVC) tagOf(t types.Type) Term {
	return IntLit(int64(v.w.TagID(t)))
}

func (w *World) TagID(t types.Type) int {
	k := typeKey(types.Unalias(t))
	if w.tagIDs == nil {
		w.tagIDs = map[string]int{}
	}
	if id, ok := w.tagIDs[k]; ok {
		return id
	}
	id := len(w.tagIDs) + 1
	w.tagIDs[k] = id
	w.tagTypes = append(w.tagTypes, t)
	return id
}

func (v *FnVC) isPtrTag(tag Term) Term {
	name := "isptrtag"
	if !v.ufs[name] {
		v.ufs[name] = true
		var pos []string
		for _, ct := range v.w.ConcreteTypes() {
			if _, ok := under(ct).(*types.Pointer); ok {
				pos = append(pos, fmt.Sprintf("(= t %d)", v.w.TagID(ct)))
			}
		}
		if len(pos) == 0 {
			pos = []string{"false"}
		}
		v.sc.Raw(fmt.Sprintf("(define-fun isptrtag ((t Int)) Bool (or %s false))", strings.Join(pos, " ")))
	}
	return app(SBool, "isptrtag", tag)
}

// implTerm: does the dynamic type with this tag implement interface type it?
func (v *FnVC) implTerm(it types.Type, tag Term) Term {
	name := "impl#" + typeKey(it)
	q := sym(name)
	if !v.ufs[name] {
		v.ufs[name] = true
		iface := under(it).(*types.Interface)
		cts := v.w.ConcreteTypes()
		var pos []string
		for _, ct := range cts {
			if types.Implements(ct, iface) {
				pos = append(pos, fmt.Sprintf("(= t %d)", v.w.TagID(ct)))
			}
		}
		// dynamic types outside the closed world of module types stay open
		x := v.sc.DeclareFun("implx#"+typeKey(it), []Sort{SInt}, SBool)
		pos = append(pos, fmt.Sprintf("(and (> t %d) (%s t))", len(cts), x))
		v.sc.Raw(fmt.Sprintf("(define-fun %s ((t Int)) Bool (or %s))", q, strings.Join(pos, " ")))
	}
	return app(SBool, q, tag)
}

// ---------- sub-object addresses ----------

func (v *FnVC) subAddr(skey, fname string, base Term) Term {
	name := "sub#" + skey + "#" + fname
	fn := v.sc.DeclareFun(name, []Sort{SInt}, SInt)
	inv := v.sc.DeclareFun("inv:"+name, []Sort{SInt}, SInt)
	kind := v.sc.DeclareFun("subkind", []Sort{SInt}, SInt)
	t := app(SInt, fn, base)
	key := "subaddr:" + t.S
	if strings.Contains(t.S, "q.") {
		// under a binder of a contract the per-term facts below would be dropped: state them once for all terms
		if qk := "subaddr-all:" + name; !v.ufs[qk] {
			v.ufs[qk] = true
			kid := v.w.TagID(types.NewNamed(types.NewTypeName(token.NoPos, nil, name, nil), types.Typ[types.Int], nil))
			v.sc.Raw(fmt.Sprintf("(assert (forall ((sa.b Int)) (! (and (< (%s sa.b) 0) (= (%s (%s sa.b)) sa.b) (= (subkind (%s sa.b)) %d)) :pattern ((%s sa.b)))))", fn, inv, fn, fn, kid, fn))
		}
		return t
	}
	if !v.ufs[key] {
		v.ufs[key] = true
		kid := v.w.TagID(types.NewNamed(types.NewTypeName(token.NoPos, nil, name, nil), types.Typ[types.Int], nil))
		v.sc.Assert(And(Lt(t, tZero), Eq(app(SInt, inv, t), base), Eq(app(SInt, kind, t), IntLit(int64(kid)))))
	}
	return t
}

func (v *FnVC) elemAddr(et types.Type, arr, idx Term) Term {
	name := "esub#" + typeKey(et)
	fn := v.sc.DeclareFun(name, []Sort{SInt, SInt}, SInt)
	inva := v.sc.DeclareFun("inva:"+name, []Sort{SInt}, SInt)
	invi := v.sc.DeclareFun("invi:"+name, []Sort{SInt}, SInt)
	kind := v.sc.DeclareFun("subkind", []Sort{SInt}, SInt)
	t := app(SInt, fn, arr, idx)
	key := "subaddr:" + t.S
	if strings.Contains(t.S, "q.") {
		if qk := "subaddr-all:" + name; !v.ufs[qk] {
			v.ufs[qk] = true
			kid := v.w.TagID(types.NewNamed(types.NewTypeName(token.NoPos, nil, name, nil), types.Typ[types.Int], nil))
			v.sc.Raw(fmt.Sprintf("(assert (forall ((sa.a Int) (sa.i Int)) (! (and (< (%s sa.a sa.i) 0) (= (%s (%s sa.a sa.i)) sa.a) (= (%s (%s sa.a sa.i)) sa.i) (= (subkind (%s sa.a sa.i)) %d)) :pattern ((%s sa.a sa.i)))))", fn, inva, fn, invi, fn, fn, kid, fn))
		}
		return t
	}
	if !v.ufs[key] {
		v.ufs[key] = true
		kid := v.w.TagID(types.NewNamed(types.NewTypeName(token.NoPos, nil, name, nil), types.Typ[types.Int], nil))
		v.sc.Assert(And(Lt(t, tZero), Eq(app(SInt, inva, t), arr), Eq(app(SInt, invi, t), idx), Eq(app(SInt, kind, t), IntLit(int64(kid)))))
	}
	return t
}

// scalarizeVal turns syntactic pointers into opaque address terms (escape).
func (v *FnVC) scalarizeVal(val Val) Val {
	switch x := val.(type) {
	case PtrV:
		return Sc{v.addrOfLoc(x.L)}
	case StructV:
		out := StructV{T: x.T}
		for _, f := range x.F {
			out.F = append(out.F, v.scalarizeVal(f))
		}
		return out
	case TupleV:
		out := TupleV{}
		for _, f := range x.E {
			out.E = append(out.E, v.scalarizeVal(f))
		}
		return out
	case FuncV:
		if x.Ref.S == "" {
			x.Ref = v.funcRef(x)
		}
		return x
	}
	return val
}

func (v *FnVC) funcRef(f FuncV) Term {
	if f.Fn != nil && len(f.Bind) == 0 {
		return v.sc.DeclareConst("fn#"+FuncKey(f.Fn), SInt)
	}
	return v.sc.Fresh("closure", SInt)
}

func (v *FnVC) addrOfLoc(l Loc) Term {
	switch l.Kind {
	case locField:
		return v.subAddr(l.SKey, l.FName, l.Base)
	case locElem:
		return v.elemAddr(l.T, l.Base, l.Idx)
	}
	return l.Base
}

// ---------- heap access ----------

func (v *FnVC) locFams(l Loc) (prefix string, two bool) {
	switch l.Kind {
	case locField:
		return famField(l.SKey, l.FName), false
	case locElem:
		return famElem(l.T), true
	default:
		return famBox(l.T), false
	}
}

func (v *FnVC) loadLoc(st *State, l Loc, guard Term) Val {
	t := l.T
	switch kindOf(t) {
	case kStruct:
		panic("loadLoc of struct: use loadStruct")
	case kArray:
		panic(unsupported("load of array value"))
	}
	prefix, two := v.locFams(l)
	var sorts []Sort
	if kindOf(t) == kScalar || kindOf(t) == kFunc {
		sorts = []Sort{scalarSort(t)}
	} else {
		sorts = flatSorts(t)
	}
	sufs := compSuffixes(t)
	ts := make([]Term, len(sorts))
	for i, so := range sorts {
		fam := prefix + sufs[i]
		if two {
			a := v.he.get(st, fam, arr2Sort(so))
			v.linkFresh(a, l.Base, arrSort(so), 0)
			ts[i] = Select(Select(a, l.Base, arrSort(so)), l.Idx, so)
		} else {
			a := v.he.get(st, fam, arrSort(so))
			v.linkFresh(a, l.Base, so, 0)
			ts[i] = Select(a, l.Base, so)
		}
		ts[i] = v.sc.Define("ld", ts[i])
	}
	val, _ := unflatten(t, ts)
	v.assumeTyped(val, t, st, guard)
	if l.Kind == locElem && v.w.Contracts.ElemsNonNil[typeKey(types.Unalias(t))] {
		switch sc := val.(type) {
		case Sc:
			v.sc.Assert(Implies(guard, Not(Eq(sc.T, tZero))))
		case IfaceV:
			v.sc.Assert(Implies(guard, Not(Eq(sc.Tag, tZero))))
		}
	}
	return val
}

func (v *FnVC) storeLoc(st *State, l Loc, val Val) {
	t := l.T
	val = v.scalarizeVal(val)
	prefix, two := v.locFams(l)
	var sorts []Sort
	if kindOf(t) == kScalar || kindOf(t) == kFunc {
		sorts = []Sort{scalarSort(t)}
	} else {
		sorts = flatSorts(t)
	}
	sufs := compSuffixes(t)
	ts := flatten(val)
	for i, so := range sorts {
		fam := prefix + sufs[i]
		if two {
			a := v.he.get(st, fam, arr2Sort(so))
			inner := Select(a, l.Base, arrSort(so))
			v.he.set(st, fam, Store(a, l.Base, Store(inner, l.Idx, ts[i])))
		} else {
			a := v.he.get(st, fam, arrSort(so))
			v.he.set(st, fam, Store(a, l.Base, ts[i]))
		}
	}
	// aliasing through escaped addresses
	mi := v.w.mods
	if l.Kind == locBox && kindOf(t) != kStruct && !v.freshRefs[l.Base.S] {
		for fam := range mi.escFields[typeKey(t)] {
			for i, suf := range sufs {
				v.he.havocFam(st, fam+suf, arrSort(sorts[i]))
			}
		}
		if mi.escElems[typeKey(t)] {
			for i, suf := range sufs {
				v.he.havocFam(st, famElem(t)+suf, arr2Sort(sorts[i]))
			}
		}
	}
	if l.Kind == locField {
		if _, esc := mi.escFields[typeKey(t)][prefix]; esc {
			for i, suf := range sufs {
				v.he.havocFam(st, famBox(t)+suf, arrSort(sorts[i]))
			}
		}
	}
	if l.Kind == locElem && mi.escElems[typeKey(t)] {
		for i, suf := range sufs {
			v.he.havocFam(st, famBox(t)+suf, arrSort(sorts[i]))
		}
	}
}

// fieldOf returns the value/address handle for field i of the struct at ref.
func (v *FnVC) fieldAddr(ref Term, structT types.Type, i int) Val {
	st := under(structT).(*types.Struct)
	ft := st.Field(i).Type()
	sk := structKey(structT)
	switch kindOf(ft) {
	case kStruct, kArray:
		return Sc{v.subAddr(sk, st.Field(i).Name(), ref)}
	}
	return PtrV{Loc{Kind: locField, Base: ref, SKey: sk, FName: st.Field(i).Name(), T: ft}}
}

func (v *FnVC) loadStruct(s *State, ref Term, structT types.Type, guard Term) Val {
	st := under(structT).(*types.Struct)
	out := StructV{T: st}
	for i := 0; i < st.NumFields(); i++ {
		fa := v.fieldAddr(ref, structT, i)
		ft := st.Field(i).Type()
		switch x := fa.(type) {
		case PtrV:
			out.F = append(out.F, v.loadLoc(s, x.L, guard))
		case Sc:
			if kindOf(ft) == kStruct {
				out.F = append(out.F, v.loadStruct(s, x.T, ft, guard))
			} else {
				out.F = append(out.F, Sc{x.T}) // array snapshot id: address (approximation flagged)
				v.note("by-value array field treated as opaque")
			}
		}
	}
	return out
}

func (v *FnVC) storeStruct(s *State, ref Term, structT types.Type, val Val) {
	st := under(structT).(*types.Struct)
	sv, ok := val.(StructV)
	if !ok {
		panic(unsupported("storeStruct of %T", val))
	}
	for i := 0; i < st.NumFields(); i++ {
		fa := v.fieldAddr(ref, structT, i)
		ft := st.Field(i).Type()
		switch x := fa.(type) {
		case PtrV:
			v.storeLoc(s, x.L, sv.F[i])
		case Sc:
			if kindOf(ft) == kStruct {
				v.storeStruct(s, x.T, ft, sv.F[i])
			}
		}
	}
}

// deref loads *p for a pointer value p whose pointee type is et.
func (v *FnVC) deref(st *State, p Val, et types.Type, guard Term) Val {
	switch x := p.(type) {
	case PtrV:
		return v.loadLoc(st, x.L, guard)
	case Sc:
		switch kindOf(et) {
		case kStruct:
			return v.loadStruct(st, x.T, et, guard)
		case kArray:
			panic(unsupported("load of array value"))
		}
		return v.loadLoc(st, Loc{Kind: locBox, Base: x.T, T: et}, guard)
	}
	panic(unsupported("deref of %T", p))
}

func (v *FnVC) storeThrough(st *State, p Val, et types.Type, val Val) {
	switch x := p.(type) {
	case PtrV:
		v.storeLoc(st, x.L, val)
	case Sc:
		switch kindOf(et) {
		case kStruct:
			v.storeStruct(st, x.T, et, val)
			return
		case kArray:
			panic(unsupported("store of array value"))
		}
		v.storeLoc(st, Loc{Kind: locBox, Base: x.T, T: et}, val)
	default:
		panic(unsupported("store through %T", p))
	}
}

// ---------- constants ----------

func (v *FnVC) constVal(c *ssa.Const) Val {
	t := c.Type()
	if c.Value == nil {
		return zeroVal(t, v.sc)
	}
	switch kindOf(t) {
	case kIface:
		// constant converted to interface cannot occur (MakeInterface is explicit); type params only
		panic(unsupported("constant of interface/type-param type"))
	}
	switch scalarSort(t) {
	case SBool:
		return Sc{BoolLit(constant.BoolVal(c.Value))}
	case SStr:
		return Sc{StrLit(constant.StringVal(c.Value))}
	case SInt:
		if c.Value.Kind() == constant.Int {
			if i, ok := constant.Int64Val(c.Value); ok {
				return Sc{IntLit(i)}
			}
			bi, _ := new(bigInt).SetString(c.Value.ExactString(), 10)
			return Sc{BigLit(bi)}
		}
		if c.Value.Kind() == constant.Float {
			f, _ := constant.Float64Val(c.Value)
			return Sc{IntLit(int64(f))}
		}
	case SFlt:
		return Sc{v.sc.DeclareConst("flt#"+c.Value.ExactString(), SFlt)}
	}
	panic(unsupported("constant %s", c))
}

// ---------- loops ----------

func (v *FnVC) findLoops(fn *ssa.Function) map[int]*loopInfo {
	loops := map[int]*loopInfo{}
	for _, b := range fn.Blocks {
		for _, s := range b.Succs {
			if s.Dominates(b) {
				li := loops[s.Index]
				if li == nil {
					li = &loopInfo{header: s, body: map[int]bool{s.Index: true}}
					loops[s.Index] = li
				}
				li.backs = append(li.backs, b)
				// natural loop body
				stack := []*ssa.BasicBlock{b}
				for len(stack) > 0 {
					x := stack[len(stack)-1]
					stack = stack[:len(stack)-1]
					if li.body[x.Index] {
						continue
					}
					li.body[x.Index] = true
					stack = append(stack, x.Preds...)
				}
			}
		}
	}
	var hs []int
	for h := range loops {
		hs = append(hs, h)
	}
	sort.Ints(hs)
	for i, h := range hs {
		loops[h].ordinal = i
	}
	return loops
}

func isBackEdge(from, to *ssa.BasicBlock) bool { return to.Dominates(from) }

func rpo(fn *ssa.Function) []*ssa.BasicBlock {
	seen := map[int]bool{}
	var post []*ssa.BasicBlock
	var dfs func(b *ssa.BasicBlock)
	dfs = func(b *ssa.BasicBlock) {
		seen[b.Index] = true
		for _, s := range b.Succs {
			if !seen[s.Index] && !isBackEdge(b, s) {
				dfs(s)
			}
		}
		post = append(post, b)
	}
	dfs(fn.Blocks[0])
	for i, j := 0, len(post)-1; i < j; i, j = i+1, j-1 {
		post[i], post[j] = post[j], post[i]
	}
	return post
}

// loopMods: what a loop body may write.
func (v *FnVC) loopMods(fr *frame, li *loopInfo) *ModSet {
	ms := &ModSet{Fams: map[string]Sort{}}
	tmp := map[string]Sort{}
	for _, b := range fr.fn.Blocks {
		if !li.body[b.Index] {
			continue
		}
		for _, ins := range b.Instrs {
			switch x := ins.(type) {
			case *ssa.Store:
				v.w.mods.storeTargetFams(x.Addr, tmp)
			case *ssa.MapUpdate:
				if m, ok := under(x.Map.Type()).(*types.Map); ok {
					mapFams(m, tmp)
				}
			case ssa.CallInstruction:
				cm := v.callMods(x)
				ms.union(cm)
			}
		}
	}
	for k, s := range tmp {
		ms.add(k, s)
		ms.markNonFresh(k)
	}
	return ms
}

// callMods: the families a call instruction may write.
func (v *FnVC) callMods(ci ssa.CallInstruction) *ModSet {
	c := ci.Common()
	ms := &ModSet{Fams: map[string]Sort{}}
	if bi, ok := c.Value.(*ssa.Builtin); ok {
		tmp := map[string]Sort{}
		switch bi.Name() {
		case "append", "copy":
			if sl, ok := under(c.Args[0].Type()).(*types.Slice); ok {
				elemStoreFams(sl.Elem(), tmp)
			}
		case "delete", "clear":
			if m, ok := under(c.Args[0].Type()).(*types.Map); ok {
				mapFams(m, tmp)
			}
		}
		for k, s := range tmp {
			ms.add(k, s)
			ms.markNonFresh(k)
		}
		return ms
	}
	if sc := c.StaticCallee(); sc != nil {
		if intrinsicPure(sc) {
			return ms
		}
		// sort.Slice & co. permute the elements of their argument and call the comparator; nothing else
		switch sc.String() {
		case "sort.Slice", "sort.SliceStable", "sort.Strings", "sort.Ints":
			var st types.Type
			a0 := c.Args[0]
			if mi, ok := a0.(*ssa.MakeInterface); ok {
				st = mi.X.Type()
			} else {
				st = a0.Type()
			}
			if sl, ok := under(st).(*types.Slice); ok {
				tmp := map[string]Sort{}
				elemStoreFams(sl.Elem(), tmp)
				for k, so := range tmp {
					ms.add(k, so)
					ms.markNonFresh(k)
				}
				targets, ok := funcArgTargets(c, ci.Parent(), v.w)
				if !ok {
					ms.Top = true
				}
				for _, t := range targets {
					ms.union(v.w.mods.Of(t))
				}
				return ms
			}
		}
		if con := v.w.Contracts.ByFunc[sc]; con != nil {
			if con.Pure || con.AssignsNothing {
				return ms
			}
			if len(con.Assigns) > 0 {
				v.assignFams(con, ms)
				return ms
			}
		}
		if de := v.w.decodeEffect(sc, c, v.w.mods); de != nil {
			ms.union(de)
			return ms
		}
		ms.union(v.w.mods.Of(sc))
		// a module function that only calls what it is given, or a library function that is handed function
		// values (filepath.Walk, sync.Once.Do, ...): the effect of the call includes the effect of those functions
		if v.w.IsParametric(sc) || (!v.w.InModule(sc) && hasFuncArg(c)) {
			targets, ok := funcArgTargets(c, ci.Parent(), v.w)
			if !ok {
				ms.Top = true
			}
			for _, t := range targets {
				ms.union(v.w.mods.Of(t))
			}
		}
		return ms
	}
	// dynamic: union over CHA edges
	n := v.w.CG.Nodes[ci.Parent()]
	found := false
	if n != nil {
		for _, e := range n.Out {
			if e.Site == ci {
				found = true
				if con := v.w.Contracts.ByFunc[e.Callee.Func]; con != nil && (con.Pure || con.AssignsNothing) {
					continue
				}
				ms.union(v.w.mods.Of(e.Callee.Func))
			}
		}
	}
	if !found {
		// interface method with a stub contract on the interface method itself
		if c.IsInvoke() {
			if con := v.w.Contracts.ByKey[invokeKey(c)]; con != nil && (con.Pure || con.AssignsNothing) {
				return ms
			}
		}
		ms.Top = true
	}
	return ms
}

func invokeKey(c *ssa.CallCommon) string {
	return typeKey(types.Unalias(c.Value.Type())) + "." + c.Method.Name()
}

func (v *FnVC) assignFams(con *Contract, ms *ModSet) {
	if con.Fn != nil {
		if fams := v.w.stubAssigns(con.Fn); fams != nil {
			for f, s := range fams {
				ms.add(f, s)
				ms.markNonFresh(f)
			}
			return
		}
	}
	for _, a := range con.Assigns {
		// a is a family prefix like F#dsl.ErrorSink#Errors ; sorts resolved from ModInfo of the function
		full := v.w.mods.Of(con.Fn)
		matched := false
		if full != nil && !full.Top {
			for f, s := range full.Fams {
				if famIsUnder(f, a) {
					ms.add(f, s)
					ms.markNonFresh(f)
					matched = true
				}
			}
		}
		if !matched {
			for f, s := range v.he.sorts {
				if famIsUnder(f, a) {
					ms.add(f, s)
					ms.markNonFresh(f)
				}
			}
		}
	}
}

func (v *FnVC) applyMods(st *State, ms *ModSet) {
	if ms.Top {
		v.he.havocAll(st)
	} else {
		var names []string
		for f := range ms.Fams {
			names = append(names, f)
		}
		sort.Strings(names)
		for _, f := range names {
			if ms.NonFresh[f] {
				v.he.havocFam(st, f, ms.Fams[f])
			} else {
				v.he.havocFamFresh(st, f, ms.Fams[f], st.allocPtr)
			}
		}
	}
}

// linkFresh: a read of cell `idx` from a version produced by a fresh-only havoc equals the read from the
// previous version when the object existed before the havoc.
func (v *FnVC) linkFresh(arr Term, idx Term, inner Sort, depth int) {
	if depth > 6 {
		return
	}
	if ps, ok := v.he.parents[arr.S]; ok {
		// a version built by store / ite from other versions: follow them (the solver relates the reads)
		for _, p := range ps {
			v.linkFresh(p, idx, inner, depth+1)
		}
		return
	}
	lk, ok := v.he.links[arr.S]
	if !ok {
		return
	}
	key := "lf:" + arr.S + "|" + idx.S
	if v.ufs[key] {
		return
	}
	v.ufs[key] = true
	v.sc.Assert(Implies(And(Lt(tZero, idx), Le(idx, lk.bound)), Eq(Select(arr, idx, inner), Select(lk.parent, idx, inner))))
	v.linkFresh(lk.parent, idx, inner, depth+1)
}

func (v *FnVC) bumpAlloc(st *State, guard Term) {
	n := v.sc.Fresh("allocptr", SInt)
	v.sc.Assert(Le(st.allocPtr, n))
	st.allocPtr = n
}

// ---------- frame execution ----------

func (v *FnVC) runFrame(fr *frame, entry *State, entryReach Term) {
	fn := fr.fn
	if fr.vals == nil {
		fr.vals = map[ssa.Value]Val{}
	}
	fr.reach = map[int]Term{}
	fr.out = map[int]*State{}
	fr.edge = map[[2]int]Term{}
	fr.loops = v.findLoops(fn)
	for i, p := range fn.Params {
		fr.vals[p] = fr.params[i]
	}
	for i, p := range fn.FreeVars {
		fr.vals[p] = fr.freeVars[i]
	}
	if !fr.top && !fr.own && len(fr.loops) > 0 {
		panic(unsupported("inlined callee %s has loops", fn.Name()))
	}
	order := rpo(fn)
	for _, b := range order {
		var st *State
		var reach Term
		li := fr.loops[b.Index]
		if b.Index == 0 {
			st = entry.clone()
			reach = entryReach
		} else {
			var ins []edgeState
			var rs []Term
			for _, p := range b.Preds {
				if isBackEdge(p, b) {
					continue
				}
				ec, ok := fr.edge[[2]int{p.Index, b.Index}]
				if !ok {
					continue // unreachable predecessor (not in rpo)
				}
				ins = append(ins, edgeState{ec, fr.out[p.Index]})
				rs = append(rs, ec)
			}
			if len(ins) == 0 {
				continue
			}
			st = v.he.merge(ins)
			reach = v.sc.DefineNamed(v.blockName(fr, b), Or(rs...))
		}
		fr.reach[b.Index] = reach
		fr.curBlock = b
		fr.curState = st
		if li != nil {
			v.enterLoop(fr, li, b, st, reach)
		} else {
			// phis
			for _, ins := range b.Instrs {
				phi, ok := ins.(*ssa.Phi)
				if !ok {
					break
				}
				fr.vals[phi] = v.phiVal(fr, phi, b, false)
			}
		}
		for _, ins := range b.Instrs {
			if _, ok := ins.(*ssa.Phi); ok {
				continue
			}
			fr.curIns = ins
			v.exec(fr, st, ins)
		}
		fr.out[b.Index] = st
		// back edges leaving this block: invariant preservation
		for _, s := range b.Succs {
			if isBackEdge(b, s) {
				v.backEdge(fr, fr.loops[s.Index], b, st)
			}
		}
	}
}

func (v *FnVC) blockName(fr *frame, b *ssa.BasicBlock) string {
	v.sc.nfresh++
	return fmt.Sprintf("reach.%s.b%d!%d", fr.fn.Name(), b.Index, v.sc.nfresh)
}

func (v *FnVC) phiVal(fr *frame, phi *ssa.Phi, b *ssa.BasicBlock, entryOnly bool) Val {
	var cur Val
	first := true
	for i := len(b.Preds) - 1; i >= 0; i-- {
		p := b.Preds[i]
		if isBackEdge(p, b) {
			continue
		}
		ec, ok := fr.edge[[2]int{p.Index, b.Index}]
		if !ok {
			continue
		}
		val := v.scalarizeIfNeeded(v.value(fr, phi.Edges[i]))
		if first {
			cur = val
			first = false
		} else {
			cur = valIte(ec, val, cur, phi.Type())
		}
	}
	if cur == nil {
		panic(unsupported("phi without reachable predecessor"))
	}
	// name it
	return v.defineVal("phi."+phi.Name(), cur, phi.Type())
}

func (v *FnVC) scalarizeIfNeeded(val Val) Val {
	if f, ok := val.(FuncV); ok && f.Ref.S == "" {
		f.Ref = v.funcRef(f)
		return f
	}
	return val
}

func (v *FnVC) defineVal(name string, val Val, t types.Type) Val {
	switch val.(type) {
	case PtrV, FuncV:
		return val
	}
	ts := flatten(val)
	for i := range ts {
		ts[i] = v.sc.Define(name, ts[i])
	}
	out, _ := unflatten(t, ts)
	return out
}

func (v *FnVC) enterLoop(fr *frame, li *loopInfo, b *ssa.BasicBlock, st *State, reach Term) {
	if !fr.top && !fr.own {
		panic(unsupported("loop in inlined function"))
	}
	// 1. pre-state values of phis (entry edges)
	pre := map[*ssa.Phi]Val{}
	var phis []*ssa.Phi
	for _, ins := range b.Instrs {
		phi, ok := ins.(*ssa.Phi)
		if !ok {
			break
		}
		phis = append(phis, phi)
		pre[phi] = v.phiVal(fr, phi, b, true)
	}
	preState := st.clone()
	// 2. INV-init on the pre-state
	invs := v.loopInvariants(fr, li)
	ov := map[string]Val{}
	for _, phi := range phis {
		fr.vals[phi] = pre[phi]
		if phi.Comment != "" {
			ov[phi.Comment] = pre[phi]
		}
	}
	for _, c := range invs {
		env := &specEnv{v: v, fr: fr, st: preState, old: fr.entry, over: ov, loop: li, pol: 1}
		t := env.evalBool(c.Expr)
		o := v.addObl("INV-init", fmt.Sprintf("loop%d:%s", li.ordinal, clauseName(c)), b.Instrs[0].Pos(), reach, t, c.Props, "")
		o.Clause = c
	}
	// 3. havoc
	li.mods = v.loopMods(fr, li)
	direct := map[string]Sort{}
	for _, bb := range fr.fn.Blocks {
		if !li.body[bb.Index] {
			continue
		}
		for _, ins := range bb.Instrs {
			switch x := ins.(type) {
			case *ssa.Store:
				v.w.mods.storeTargetFams(x.Addr, direct)
			case ssa.CallInstruction:
				if bi, ok := x.Common().Value.(*ssa.Builtin); ok && (bi.Name() == "append" || bi.Name() == "copy") {
					for f, so := range v.callMods(x).Fams {
						direct[f] = so
					}
				}
			}
		}
	}
	v.withLocalFrameExcept(fr, st, direct, func() { v.applyMods(st, li.mods) })
	v.bumpAlloc(st, reach)
	for _, bb := range fr.fn.Blocks {
		if !li.body[bb.Index] {
			continue
		}
		for _, ins := range bb.Instrs {
			if ci, ok := ins.(ssa.CallInstruction); ok {
				if par, ok := ci.Common().Value.(*ssa.Parameter); ok && !ci.Common().IsInvoke() && ci.Common().StaticCallee() == nil {
					// calls through a function-typed parameter are observed as well (called(p), errSeen(p), calls(p))
					pk := "param:" + par.Name()
					for _, g := range []string{"called#", "errSeen#"} {
						old := st.ghostGet(g + pk)
						n := v.sc.Fresh("ghost", SBool)
						v.sc.Assert(Implies(old, n))
						st.ghost[g+pk] = n
					}
					ck := "count#" + pk
					old := tZero
					if t, ok := st.ghost[ck]; ok {
						old = t
					}
					n := v.sc.Fresh("ghostn", SInt)
					v.sc.Assert(Le(old, n))
					st.ghost[ck] = n
				}
				if cal := ci.Common().StaticCallee(); cal != nil {
					for _, g := range []string{"called#", "errSeen#"} {
						old := st.ghostGet(g + FuncKey(cal))
						n := v.sc.Fresh("ghost", SBool)
						v.sc.Assert(Implies(old, n)) // observers are monotone: once true, they stay true
						st.ghost[g+FuncKey(cal)] = n
					}
					{
						ck := "count#" + FuncKey(cal)
						old := tZero
						if t, ok := st.ghost[ck]; ok {
							old = t
						}
						n := v.sc.Fresh("ghostn", SInt)
						v.sc.Assert(Le(old, n))
						st.ghost[ck] = n
					}
				}
			}
		}
	}
	{
		// closures made in the loop may call a function-typed parameter they capture (observed since such calls are
		// observed in inlined own closures): every parameter observer is havocked when the body makes a closure, or -
		// in a loop of such a closure - calls a captured function value
		makes := false
		for _, bb := range fr.fn.Blocks {
			if !li.body[bb.Index] {
				continue
			}
			for _, ins := range bb.Instrs {
				if _, ok := ins.(*ssa.MakeClosure); ok {
					makes = true
				}
				if ci, ok := ins.(ssa.CallInstruction); ok && !fr.top {
					if _, isFV := ci.Common().Value.(*ssa.FreeVar); isFV {
						makes = true
					}
				}
			}
		}
		if makes {
			for _, par := range v.fn.Params {
				if _, isSig := under(par.Type()).(*types.Signature); !isSig {
					continue
				}
				pk := "param:" + par.Name()
				for _, g := range []string{"called#", "errSeen#"} {
					old := st.ghostGet(g + pk)
					n := v.sc.Fresh("ghost", SBool)
					v.sc.Assert(Implies(old, n))
					st.ghost[g+pk] = n
				}
				ck := "count#" + pk
				old := tZero
				if t, ok := st.ghost[ck]; ok {
					old = t
				}
				n := v.sc.Fresh("ghostn", SInt)
				v.sc.Assert(Le(old, n))
				st.ghost[ck] = n
			}
		}
	}
	{
		fm := map[string]bool{}
		top := false
		for _, bb := range fr.fn.Blocks {
			if !li.body[bb.Index] {
				continue
			}
			for _, ins := range bb.Instrs {
				if ci, ok := ins.(ssa.CallInstruction); ok {
					f2, t2 := v.callMayEmit(ci)
					if t2 {
						top = true
					}
					for k := range f2 {
						fm[k] = true
					}
				}
			}
		}
		v.havocEmits(st, fm, top)
		for k := range st.ghost {
			if strings.HasPrefix(k, "eh#") {
				// the function's own emissions of a format change in the loop only if some call of the body may
				// print that format (own statements and inlined closures are among those calls)
				if !top && !fm[strings.TrimPrefix(k, "eh#")] {
					continue
				}
				old := st.ghost[k]
				n := v.sc.Fresh("eh", SInt)
				v.sc.Assert(Le(old, n))
				st.ghost[k] = n
			}
		}
	}
	ov2 := map[string]Val{}
	for _, phi := range phis {
		if _, isPtr := pre[phi].(PtrV); isPtr {
			panic(unsupported("pointer-valued loop phi"))
		}
		nv := v.freshTyped("loop."+phi.Name(), phi.Type(), st, reach)
		fr.vals[phi] = nv
		if phi.Comment != "" {
			ov2[phi.Comment] = nv
		}
	}
	li.headState = st.clone()
	// the index the next iteration works on is a term the assumed invariants should be instantiated at (the body
	// has not been executed yet, so it is not among the index terms seen so far)
	for _, phi := range phis {
		if b, ok := under(phi.Type()).(*types.Basic); ok && b.Info()&types.IsInteger != 0 {
			if sc, ok := fr.vals[phi].(Sc); ok {
				if phi.Comment == "rangeindex" {
					v.noteIndex(Add(sc.T, IntLit(1)))
				} else {
					v.noteIndex(sc.T)
				}
			}
		}
	}
	// 4. assume invariants (user + auto)
	for _, c := range invs {
		env := &specEnv{v: v, fr: fr, st: st, old: fr.entry, over: ov2, loop: li, pol: -1}
		t := env.evalBool(c.Expr)
		v.sc.Assert(Implies(reach, t))
	}
	for _, phi := range phis {
		if t, ok := v.autoInvariant(fr, li, phi, pre[phi]); ok {
			v.sc.Assert(Implies(reach, t))
		}
	}
}

func clauseName(c *Clause) string {
	if c.Name != "" {
		return c.Name
	}
	return normText(c.Text)
}

func (v *FnVC) loopInvariants(fr *frame, li *loopInfo) []*Clause {
	if v.con == nil || !fr.top {
		return nil
	}
	return v.con.Invariants[li.ordinal]
}

// autoInvariant: monotone counters keep the bound given by their initial value.
// i = phi [entry: init, back: i + c] with c > 0  ==>  i >= init   (symmetrically for c < 0).
// This is sound without an obligation: it follows from the shape of the phi alone.
func (v *FnVC) autoInvariant(fr *frame, li *loopInfo, phi *ssa.Phi, pre Val) (Term, bool) {
	if scalarSort(phi.Type()) != SInt || kindOf(phi.Type()) != kScalar {
		return Term{}, false
	}
	if _, ok := under(phi.Type()).(*types.Basic); !ok {
		return Term{}, false
	}
	b := phi.Block()
	dir := 0
	for i, p := range b.Preds {
		if !isBackEdge(p, b) {
			continue
		}
		e := phi.Edges[i]
		if e == phi {
			continue
		}
		d, ok := stepOf(e, phi, 0)
		if !ok || d == 0 {
			return Term{}, false
		}
		if d > 0 {
			if dir < 0 {
				return Term{}, false
			}
			dir = 1
		} else {
			if dir > 0 {
				return Term{}, false
			}
			dir = -1
		}
	}
	if dir == 0 {
		return Term{}, false
	}
	pv, ok := pre.(Sc)
	if !ok {
		return Term{}, false
	}
	cur := fr.vals[phi].(Sc).T
	v.note("machine arithmetic treated as mathematical (loop counters assumed not to wrap)")
	// congruence: when every back edge adds exactly the same constant k, (phi - init) is a multiple of k
	var cong Term = tTrue
	if k, ok := exactStepAll(phi); ok && abs64(k) > 1 {
		cong = Eq(app(SInt, "mod", Sub(cur, pv.T), IntLit(abs64(k))), tZero)
	}
	// range loops: i = phi[-1, i+1]; exit test (i+1) < len with len computed before the loop  ==>  i+1 <= len
	var upper Term = tTrue
	if phi.Comment == "rangeindex" && pv.T.S == "(- 1)" {
		for _, ins := range b.Instrs {
			bo, ok := ins.(*ssa.BinOp)
			if !ok || bo.Op != token.LSS {
				continue
			}
			add, ok := bo.X.(*ssa.BinOp)
			if !ok || add.Op != token.ADD || add.X != ssa.Value(phi) {
				continue
			}
			if c, ok := add.Y.(*ssa.Const); !ok || c.Value == nil || c.Value.ExactString() != "1" {
				continue
			}
			// the bound must be a len() taken outside the loop
			if call, ok := bo.Y.(*ssa.Call); ok {
				if bi, ok := call.Call.Value.(*ssa.Builtin); ok && bi.Name() == "len" && !li.body[call.Block().Index] {
					if lv, ok := fr.vals[call].(Sc); ok {
						upper = Le(Add(cur, IntLit(1)), lv.T)
					}
				}
			}
		}
	}
	if dir > 0 {
		return And(Le(pv.T, cur), cong, upper), true
	}
	return And(Le(cur, pv.T), cong), true
}

func exactStepAll(phi *ssa.Phi) (int64, bool) {
	b := phi.Block()
	var k int64
	set := false
	for i, p := range b.Preds {
		if !isBackEdge(p, b) {
			continue
		}
		d, ok := exactStep(phi.Edges[i], phi, 0)
		if !ok {
			return 0, false
		}
		if set && d != k {
			return 0, false
		}
		k, set = d, true
	}
	return k, set
}

func exactStep(e ssa.Value, phi *ssa.Phi, depth int) (int64, bool) {
	if depth > 4 {
		return 0, false
	}
	if e == phi {
		return 0, true
	}
	switch x := e.(type) {
	case *ssa.BinOp:
		if x.Op == token.ADD || x.Op == token.SUB {
			if c, ok := x.Y.(*ssa.Const); ok && c.Value != nil && c.Value.Kind() == constant.Int {
				k, _ := constant.Int64Val(c.Value)
				if x.Op == token.SUB {
					k = -k
				}
				if d, ok := exactStep(x.X, phi, depth+1); ok {
					return d + k, true
				}
			}
		}
	case *ssa.Phi:
		var acc int64
		set := false
		for _, ed := range x.Edges {
			d, ok := exactStep(ed, phi, depth+1)
			if !ok {
				return 0, false
			}
			if set && d != acc {
				return 0, false
			}
			acc, set = d, true
		}
		return acc, set
	}
	return 0, false
}

// stepOf: e == phi + k (through chains of +const / phis inside the loop that merge such values)
func stepOf(e ssa.Value, phi *ssa.Phi, depth int) (int64, bool) {
	if depth > 4 {
		return 0, false
	}
	switch x := e.(type) {
	case *ssa.BinOp:
		if x.Op == token.ADD || x.Op == token.SUB {
			if c, ok := x.Y.(*ssa.Const); ok && c.Value != nil && c.Value.Kind() == constant.Int {
				k, _ := constant.Int64Val(c.Value)
				if x.Op == token.SUB {
					k = -k
				}
				if x.X == phi {
					return k, true
				}
				if d, ok := stepOf(x.X, phi, depth+1); ok && (d >= 0) == (k >= 0) {
					return d + k, true
				}
			}
		}
	case *ssa.Phi:
		// inner merge: all edges must step in the same direction (or be phi itself)
		var acc int64
		set := false
		for _, ed := range x.Edges {
			if ed == phi {
				continue
			}
			d, ok := stepOf(ed, phi, depth+1)
			if !ok {
				return 0, false
			}
			if set && (d > 0) != (acc > 0) {
				return 0, false
			}
			if !set || abs64(d) < abs64(acc) {
				acc = d
			}
			set = true
		}
		if set {
			return acc, true
		}
	}
	return 0, false
}

func abs64(x int64) int64 {
	if x < 0 {
		return -x
	}
	return x
}

func (v *FnVC) backEdge(fr *frame, li *loopInfo, from *ssa.BasicBlock, st *State) {
	h := li.header
	ec := fr.edge[[2]int{from.Index, h.Index}]
	if v.con != nil && fr.top && li.headState != nil {
		// hidden loop variables (rangeindex) denote their value at the head of the iteration
		ovHead := map[string]Val{}
		for _, ins := range h.Instrs {
			phi, ok := ins.(*ssa.Phi)
			if !ok {
				break
			}
			if phi.Comment != "" {
				if hv, ok := fr.vals[phi]; ok {
					ovHead[phi.Comment] = hv
				}
			}
		}
		nextOf := map[string]Val{}
		{
			bi := -1
			for i, p := range h.Preds {
				if p == from {
					bi = i
				}
			}
			for _, ins := range h.Instrs {
				phi, ok := ins.(*ssa.Phi)
				if !ok {
					break
				}
				if phi.Comment != "" && bi >= 0 {
					nextOf[phi.Comment] = v.value(fr, phi.Edges[bi])
				}
			}
		}
		for _, c := range v.con.Iterations[li.ordinal] {
			env := &specEnv{v: v, fr: fr, st: st, old: li.headState, loop: li, over: ovHead, nextOf: nextOf, pol: 1}
			t, bound := v.evalClause(env, c)
			if !bound {
				continue
			}
			o := v.addObl("ITER", fmt.Sprintf("loop%d:%s", li.ordinal, clauseName(c)), from.Instrs[len(from.Instrs)-1].Pos(), ec, t, c.Props, "")
			o.Clause = c
		}
	}
	if v.con != nil && fr.top && li.headState != nil {
		if c := v.con.Variants[li.ordinal]; c != nil {
			eOld := (&specEnv{v: v, fr: fr, st: li.headState, old: li.headState, loop: li}).eval(c.Expr).V.(Sc).T
			eNew := (&specEnv{v: v, fr: fr, st: st, old: li.headState, loop: li}).eval(c.Expr).V.(Sc).T
			o := v.addObl("TERM", fmt.Sprintf("loop%d:variant %s", li.ordinal, normText(c.Text)), from.Instrs[len(from.Instrs)-1].Pos(), ec, And(Le(tZero, eOld), Lt(eNew, eOld)), c.Props, "")
			o.Clause = c
		}
	}
	invs := v.loopInvariants(fr, li)
	if len(invs) == 0 {
		return
	}
	ov := map[string]Val{}
	saved := map[*ssa.Phi]Val{}
	idx := -1
	for i, p := range h.Preds {
		if p == from {
			idx = i
		}
	}
	for _, ins := range h.Instrs {
		phi, ok := ins.(*ssa.Phi)
		if !ok {
			break
		}
		nv := v.value(fr, phi.Edges[idx])
		saved[phi] = fr.vals[phi]
		if phi.Comment != "" {
			ov[phi.Comment] = nv
		}
		_ = nv
	}
	// evaluate invariants with header phis replaced by their back-edge values (parallel assignment)
	nvs := map[*ssa.Phi]Val{}
	for phi := range saved {
		nvs[phi] = v.value(fr, phi.Edges[idx])
	}
	for phi, nv := range nvs {
		fr.vals[phi] = nv
	}
	for _, c := range invs {
		env := &specEnv{v: v, fr: fr, st: st, old: fr.entry, over: ov, loop: li, pol: 1}
		t := env.evalBool(c.Expr)
		o := v.addObl("INV-pres", fmt.Sprintf("loop%d:%s", li.ordinal, clauseName(c)), from.Instrs[len(from.Instrs)-1].Pos(), ec, t, c.Props, "")
		o.Clause = c
	}
	for phi, sv := range saved {
		fr.vals[phi] = sv
	}
}

// value returns the symbolic value of an SSA value in the frame.
func (v *FnVC) value(fr *frame, x ssa.Value) Val {
	if val, ok := fr.vals[x]; ok {
		return val
	}
	switch c := x.(type) {
	case *ssa.Const:
		return v.constVal(c)
	case *ssa.Global:
		return Sc{v.globalAddr(c)}
	case *ssa.Function:
		return FuncV{Fn: c}
	case *ssa.Builtin:
		panic(unsupported("builtin as value"))
	}
	panic(unsupported("value %s (%T) not available in %s", x.Name(), x, fr.fn.Name()))
}

func (v *FnVC) globalAddr(g *ssa.Global) Term {
	k := g.String()
	if t, ok := v.glob[k]; ok {
		return t
	}
	id := v.w.GlobalID(k)
	t := IntLit(-int64(1000000 + id))
	v.glob[k] = t
	v.freshRefs[t.S] = true
	return t
}

func (w *World) GlobalID(k string) int {
	if w.globIDs == nil {
		w.globIDs = map[string]int{}
	}
	if id, ok := w.globIDs[k]; ok {
		return id
	}
	id := len(w.globIDs) + 1
	w.globIDs[k] = id
	return id
}

// noteIndex records an index term used by the code (candidates for quantifier instantiation).
func (v *FnVC) noteIndex(t Term) {
	if len(t.S) > 200 {
		return
	}
	for _, x := range v.idxTerms {
		if x.S == t.S {
			return
		}
	}
	v.idxTerms = append(v.idxTerms, t)
}

func (v *FnVC) instTerms() []Term {
	ts := v.idxTerms
	if len(ts) > 6 {
		ts = ts[len(ts)-6:]
	}
	return ts
}

// callMayEmit: formats a call instruction may emit.
func (v *FnVC) callMayEmit(ci ssa.CallInstruction) (map[string]bool, bool) {
	c := ci.Common()
	out := map[string]bool{}
	if _, ok := c.Value.(*ssa.Builtin); ok {
		return out, false
	}
	if sc := c.StaticCallee(); sc != nil {
		switch sc.String() {
		case "fmt.Fprintf", "fmt.Fprintln", "fmt.Fprint":
			// own emission: computed like in computeEmits through a tiny wrapper set
		}
		if !v.w.InModule(sc) {
			// direct library writes
			tmp := &ModInfo{w: v.w}
			_ = tmp
			switch sc.String() {
			case "fmt.Fprintf":
				if k, ok := c.Args[1].(*ssa.Const); ok && k.Value != nil {
					out[constant.StringVal(k.Value)] = true
				} else {
					out[dynFormat] = true
				}
				return out, false
			case "fmt.Fprintln", "fmt.Fprint":
				out[dynFormat] = true
				srcs, ok := varargSources(c.Args[1])
				if ok && len(srcs) == 1 {
					o := srcs[0]
					if m, isMI := o.(*ssa.MakeInterface); isMI {
						o = m.X
					}
					if k, ok := o.(*ssa.Const); ok && k.Value != nil && k.Value.Kind() == constant.String {
						lit := constant.StringVal(k.Value)
						if sc.String() == "fmt.Fprintln" {
							lit += "\n"
						}
						out[lit] = true
					}
				}
				return out, false
			}
			return out, false
		}
		if strings.Contains(sc.String(), "formatting.IndentedWriter)") {
			// emission primitives
			switch {
			case strings.HasSuffix(sc.String(), ").WriteString"), strings.HasSuffix(sc.String(), ").WriteStringln"):
				if k, ok := c.Args[1].(*ssa.Const); ok && k.Value != nil {
					lit := constant.StringVal(k.Value)
					if strings.HasSuffix(sc.String(), "ln") {
						lit += "\n"
					}
					out[lit] = true
				} else {
					out[dynFormat] = true
				}
				return out, false
			case strings.HasSuffix(sc.String(), ").Indented"):
				out["<indent>"] = true
				out["<dedent>"] = true
				targets, ok := funcArgTargets(c, ci.Parent(), v.w)
				top := !ok
				for _, t := range targets {
					f2, t2 := v.w.mods.MayEmit(t)
					if t2 {
						top = true
					}
					for k := range f2 {
						out[k] = true
					}
				}
				return out, top
			case strings.HasSuffix(sc.String(), ").Write"):
				return out, true
			default:
				return out, false
			}
		}
		fs, top := v.w.mods.MayEmit(sc)
		for k := range fs {
			out[k] = true
		}
		if v.w.IsParametric(sc) || strings.HasSuffix(sc.String(), "IndentedWriter).Indented") {
			targets, ok := funcArgTargets(c, ci.Parent(), v.w)
			if !ok {
				top = true
			}
			for _, t := range targets {
				f2, t2 := v.w.mods.MayEmit(t)
				if t2 {
					top = true
				}
				for k := range f2 {
					out[k] = true
				}
			}
		}
		return out, top
	}
	// dynamic call: union over CHA targets
	n := v.w.CG.Nodes[ci.Parent()]
	top := false
	found := false
	if n != nil {
		for _, e := range n.Out {
			if e.Site == ci {
				found = true
				fs, t2 := v.w.mods.MayEmit(e.Callee.Func)
				if t2 {
					top = true
				}
				for k := range fs {
					out[k] = true
				}
			}
		}
	}
	if !found && !c.IsInvoke() {
		top = true
	}
	return out, top
}

// staticallyLiveBlocks: blocks reachable from the entry when branches that compare two nil constants are folded.
func staticallyLiveBlocks(fn *ssa.Function) map[int]bool {
	live := map[int]bool{}
	var walk func(b *ssa.BasicBlock)
	walk = func(b *ssa.BasicBlock) {
		if live[b.Index] {
			return
		}
		live[b.Index] = true
		if len(b.Instrs) > 0 {
			if br, ok := b.Instrs[len(b.Instrs)-1].(*ssa.If); ok {
				if bo, ok := br.Cond.(*ssa.BinOp); ok && (bo.Op == token.EQL || bo.Op == token.NEQ) {
					x, xok := bo.X.(*ssa.Const)
					y, yok := bo.Y.(*ssa.Const)
					if xok && yok && x.IsNil() && y.IsNil() {
						if bo.Op == token.EQL {
							walk(b.Succs[0])
						} else {
							walk(b.Succs[1])
						}
						return
					}
				}
			}
		}
		for _, s := range b.Succs {
			walk(s)
		}
	}
	if len(fn.Blocks) > 0 {
		walk(fn.Blocks[0])
	}
	return live
}

func hasFuncArg(c *ssa.CallCommon) bool {
	for _, a := range c.Args {
		if _, isFn := under(a.Type()).(*types.Signature); isFn {
			if k, isConst := a.(*ssa.Const); isConst && k.IsNil() {
				continue
			}
			return true
		}
	}
	return false
}

// evalClause evaluates a postcondition or iteration clause. A clause that names something the function no longer has
// (a renamed local, a loop variable that was dropped) does not bind: it yields no obligation (its locked group is
// reported MISSING) and the other clauses of the function are still checked. Invariants are different: the other
// obligations rely on them, so an invariant that does not bind still puts the whole function out of reach.
func (v *FnVC) evalClause(env *specEnv, c *Clause) (t Term, ok bool) {
	mark := len(v.sc.lines)
	defer func() {
		if r := recover(); r != nil {
			if u, isU := r.(unsupportedErr); isU && strings.HasPrefix(u.msg, "spec:") {
				v.sc.rollbackTo(mark)
				v.unboundClauses = append(v.unboundClauses, clauseName(c)+": "+u.msg)
				ok = false
				return
			}
			panic(r)
		}
	}()
	return env.evalBool(c.Expr), true
}
