package main

import (
	"go/constant"
	"go/token"
	"go/types"
	"sort"
	"strings"

	"golang.org/x/tools/go/ssa"
)

func bitTok(i int) token.Token {
	return []token.Token{token.AND, token.OR, token.AND_NOT, token.XOR}[i]
}

func (w *World) TagIDKey(k string) int {
	if w.tagIDs == nil {
		w.tagIDs = map[string]int{}
	}
	if id, ok := w.tagIDs[k]; ok {
		return id
	}
	id := len(w.tagIDs) + 1
	w.tagIDs[k] = id
	w.tagTypes = append(w.tagTypes, nil)
	return id
}

// ConcreteTypes: every concrete type that module code can put into an interface:
// named types of the module (T and *T) and every operand type of a MakeInterface in module code.
func (w *World) ConcreteTypes() []types.Type {
	if w.concrete != nil {
		return w.concrete
	}
	seen := map[string]bool{}
	add := func(t types.Type) {
		if t == nil || kindOf(t) == kIface {
			return
		}
		if _, ok := t.(*types.TypeParam); ok {
			return
		}
		k := typeKey(types.Unalias(t))
		if !seen[k] {
			seen[k] = true
			w.concrete = append(w.concrete, t)
		}
	}
	var paths []string
	for p := range w.PkgByID {
		paths = append(paths, p)
	}
	sort.Strings(paths)
	for _, p := range paths {
		if !strings.HasPrefix(p, modulePath) {
			continue
		}
		sc := w.PkgByID[p].Types.Scope()
		for _, n := range sc.Names() {
			if tn, ok := sc.Lookup(n).(*types.TypeName); ok && !tn.IsAlias() {
				if nt, ok := tn.Type().(*types.Named); ok && nt.TypeParams().Len() > 0 {
					continue
				}
				add(tn.Type())
				add(types.NewPointer(tn.Type()))
			}
		}
	}
	for _, f := range w.AllFns {
		if !w.InModule(f) {
			continue
		}
		for _, b := range f.Blocks {
			for _, ins := range b.Instrs {
				if mi, ok := ins.(*ssa.MakeInterface); ok {
					add(mi.X.Type())
				}
			}
		}
	}
	// make ids deterministic
	for _, t := range w.concrete {
		w.TagID(t)
	}
	return w.concrete
}

// ConstGlobals: package-level variables that init sets once to a constant and that no other code of the
// module writes or takes the address of (e.g. dsl.PrimitiveString). Loads from them read that constant.
func (w *World) ConstGlobals() map[*ssa.Global]*ssa.Const {
	if w.constGlobals != nil {
		return w.constGlobals
	}
	cand := map[*ssa.Global]*ssa.Const{}
	bad := map[*ssa.Global]bool{}
	for _, f := range w.AllFns {
		if !w.InModule(f) {
			continue
		}
		isInit := f.Name() == "init" && f.Parent() == nil
		for _, b := range f.Blocks {
			for _, ins := range b.Instrs {
				for _, op := range ins.Operands(nil) {
					g, ok := (*op).(*ssa.Global)
					if !ok {
						continue
					}
					switch x := ins.(type) {
					case *ssa.UnOp:
						// load
					case *ssa.Store:
						if x.Addr == ssa.Value(g) && isInit {
							if c, ok := x.Val.(*ssa.Const); ok && c.Value != nil {
								if _, dup := cand[g]; dup {
									bad[g] = true
								}
								cand[g] = c
								continue
							}
						}
						bad[g] = true
					default:
						bad[g] = true
					}
				}
			}
		}
	}
	w.constGlobals = map[*ssa.Global]*ssa.Const{}
	for g, c := range cand {
		if !bad[g] {
			w.constGlobals[g] = c
		}
	}
	return w.constGlobals
}

// BigIntGlobals: package-level variables of type *big.Int that init sets once to big.NewInt(<constant>) and that no
// other code of the module writes or takes the address of (dsl.MinInt8 ... dsl.MaxInt64, dsl.Zero). A load from one
// reads a non-nil number with that mathematical value (math/big.NewInt, and the module never mutates a big.Int: the
// assumption the big.Int stubs already state).
func (w *World) BigIntGlobals() map[*ssa.Global]string {
	if w.bigIntGlobals != nil {
		return w.bigIntGlobals
	}
	cand := map[*ssa.Global]string{}
	bad := map[*ssa.Global]bool{}
	for _, f := range w.AllFns {
		if !w.InModule(f) {
			continue
		}
		isInit := f.Name() == "init" && f.Parent() == nil
		for _, b := range f.Blocks {
			for _, ins := range b.Instrs {
				for _, op := range ins.Operands(nil) {
					g, ok := (*op).(*ssa.Global)
					if !ok {
						continue
					}
					if pt, ok := under(deref1(g.Type())).(*types.Pointer); !ok || typeKeyOf(pt.Elem()) != "math/big.Int" {
						continue
					}
					switch x := ins.(type) {
					case *ssa.UnOp:
						// load
					case *ssa.Store:
						if x.Addr == ssa.Value(g) && isInit {
							if call, ok := x.Val.(*ssa.Call); ok {
								if cal := call.Call.StaticCallee(); cal != nil && cal.Pkg != nil && cal.Pkg.Pkg.Path() == "math/big" && cal.Name() == "NewInt" && len(call.Call.Args) == 1 {
									if c, ok := call.Call.Args[0].(*ssa.Const); ok && c.Value != nil && c.Value.Kind() == constant.Int {
										if _, dup := cand[g]; dup {
											bad[g] = true
										}
										cand[g] = c.Value.ExactString()
										continue
									}
								}
							}
						}
						bad[g] = true
					default:
						bad[g] = true
					}
				}
			}
		}
	}
	w.bigIntGlobals = map[*ssa.Global]string{}
	for g, c := range cand {
		if !bad[g] {
			w.bigIntGlobals[g] = c
		}
	}
	return w.bigIntGlobals
}

// singleStoreCell: the local cell is written by exactly one store, in the block that allocates it, and is otherwise only
// loaded - by the function itself or by closures that capture it (checked through the captured variables, nested
// closures included). Nothing else can change what it holds.
func (w *World) singleStoreCell(al *ssa.Alloc) bool {
	if w.singleStore == nil {
		w.singleStore = map[*ssa.Alloc]bool{}
	}
	if r, ok := w.singleStore[al]; ok {
		return r
	}
	var onlyLoaded func(v ssa.Value, depth int) (stores int, ok bool)
	onlyLoaded = func(v ssa.Value, depth int) (int, bool) {
		if depth > 6 || v.Referrers() == nil {
			return 0, false
		}
		stores := 0
		for _, r := range *v.Referrers() {
			switch x := r.(type) {
			case *ssa.UnOp:
				if x.Op != token.MUL {
					return 0, false
				}
			case *ssa.DebugRef:
			case *ssa.Store:
				if x.Addr != v || x.Val == v {
					return 0, false
				}
				if a, isA := v.(*ssa.Alloc); !isA || x.Block() != a.Block() {
					return 0, false
				}
				stores++
			case *ssa.MakeClosure:
				fn, ok := x.Fn.(*ssa.Function)
				if !ok {
					return 0, false
				}
				for i, b := range x.Bindings {
					if b == v {
						if i >= len(fn.FreeVars) {
							return 0, false
						}
						n, ok := onlyLoaded(fn.FreeVars[i], depth+1)
						if !ok || n > 0 {
							return 0, false
						}
					}
				}
			default:
				return 0, false
			}
		}
		return stores, true
	}
	n, ok := onlyLoaded(al, 0)
	w.singleStore[al] = ok && n == 1
	return w.singleStore[al]
}

func typeKeyOf(t types.Type) string {
	if n, ok := types.Unalias(t).(*types.Named); ok && n.Obj().Pkg() != nil {
		return n.Obj().Pkg().Path() + "." + n.Obj().Name()
	}
	return ""
}

// ConstStringSets: package-level variables of a map type with string keys that init fills from a composite literal
// and that the module afterwards only reads (lookups, len, range): the set of keys is the literal's. E.g. the
// reserved-word tables of the generators.
func (w *World) ConstStringSets() map[*ssa.Global][]string {
	if w.constStringSets != nil {
		return w.constStringSets
	}
	out := map[*ssa.Global][]string{}
	bad := map[*ssa.Global]bool{}
	keysOf := map[*ssa.Global][]string{}
	for _, f := range w.AllFns {
		if !w.InModule(f) {
			continue
		}
		isInit := f.Name() == "init" && f.Parent() == nil
		for _, b := range f.Blocks {
			for _, ins := range b.Instrs {
				for _, op := range ins.Operands(nil) {
					g, ok := (*op).(*ssa.Global)
					if !ok {
						continue
					}
					mt, isMap := under(deref1(g.Type())).(*types.Map)
					if !isMap {
						continue
					}
					if bk, ok := under(mt.Key()).(*types.Basic); !ok || bk.Info()&types.IsString == 0 {
						continue
					}
					switch x := ins.(type) {
					case *ssa.UnOp:
						// a load: the loaded map may only be read
						if refs := x.Referrers(); refs != nil {
							for _, r := range *refs {
								switch y := r.(type) {
								case *ssa.Lookup, *ssa.Range, *ssa.DebugRef:
								case *ssa.Call:
									if bi, ok := y.Call.Value.(*ssa.Builtin); !ok || bi.Name() != "len" {
										bad[g] = true
									}
								default:
									bad[g] = true
								}
							}
						}
					case *ssa.Store:
						mk, ok := x.Val.(*ssa.MakeMap)
						if x.Addr != ssa.Value(g) || !isInit || !ok || keysOf[g] != nil {
							bad[g] = true
							continue
						}
						keys := []string{}
						if refs := mk.Referrers(); refs != nil {
							for _, r := range *refs {
								switch y := r.(type) {
								case *ssa.MapUpdate:
									c, ok := y.Key.(*ssa.Const)
									if !ok || c.Value == nil || c.Value.Kind() != constant.String {
										bad[g] = true
									} else {
										keys = append(keys, constant.StringVal(c.Value))
									}
								case *ssa.Store, *ssa.DebugRef:
								default:
									bad[g] = true
								}
							}
						}
						keysOf[g] = keys
					default:
						bad[g] = true
					}
				}
			}
		}
	}
	for g, ks := range keysOf {
		if !bad[g] {
			sort.Strings(ks)
			out[g] = ks
		}
	}
	w.constStringSets = out
	return out
}

func deref1(t types.Type) types.Type {
	if p, ok := under(t).(*types.Pointer); ok {
		return p.Elem()
	}
	return t
}
