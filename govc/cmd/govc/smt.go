package main

import (
	"regexp"
	"fmt"
	"math/big"
	"strings"
	"unicode/utf8"
)

type Sort string

const (
	SInt  Sort = "Int"
	SBool Sort = "Bool"
	SStr  Sort = "String"
	SFlt  Sort = "Flt" // uninterpreted floating point / complex
)

type Term struct {
	S    string
	Sort Sort
}

func (t Term) String() string { return t.S }

func arrSort(elem Sort) Sort  { return Sort("(Array Int " + string(elem) + ")") }
func arr2Sort(elem Sort) Sort { return Sort("(Array Int (Array Int " + string(elem) + "))") }

func IntLit(n int64) Term {
	if n < 0 {
		return Term{fmt.Sprintf("(- %d)", -n), SInt}
	}
	return Term{fmt.Sprintf("%d", n), SInt}
}

func BigLit(n *big.Int) Term {
	if n.Sign() < 0 {
		return Term{"(- " + new(big.Int).Neg(n).String() + ")", SInt}
	}
	return Term{n.String(), SInt}
}

func BoolLit(b bool) Term {
	if b {
		return Term{"true", SBool}
	}
	return Term{"false", SBool}
}

func StrLit(s string) Term {
	var b strings.Builder
	b.WriteByte('"')
	for len(s) > 0 {
		r, n := utf8.DecodeRuneInString(s)
		if r == utf8.RuneError && n == 1 {
			fmt.Fprintf(&b, "\\u{%x}", s[0])
		} else if r == '"' {
			b.WriteString(`""`)
		} else if r == '\\' {
			b.WriteString("\\u{5c}")
		} else if r >= 0x20 && r < 0x7f {
			b.WriteRune(r)
		} else {
			fmt.Fprintf(&b, "\\u{%x}", r)
		}
		s = s[n:]
	}
	b.WriteByte('"')
	return Term{b.String(), SStr}
}

var tTrue = BoolLit(true)
var tFalse = BoolLit(false)
var tZero = IntLit(0)

func app(sort Sort, op string, args ...Term) Term {
	var b strings.Builder
	b.WriteByte('(')
	b.WriteString(op)
	for _, a := range args {
		b.WriteByte(' ')
		b.WriteString(a.S)
	}
	b.WriteByte(')')
	return Term{b.String(), sort}
}

func And(ts ...Term) Term {
	var xs []Term
	for _, t := range ts {
		if t.S == "true" {
			continue
		}
		if t.S == "false" {
			return tFalse
		}
		xs = append(xs, t)
	}
	if len(xs) == 0 {
		return tTrue
	}
	if len(xs) == 1 {
		return xs[0]
	}
	return app(SBool, "and", xs...)
}

func Or(ts ...Term) Term {
	var xs []Term
	for _, t := range ts {
		if t.S == "false" {
			continue
		}
		if t.S == "true" {
			return tTrue
		}
		xs = append(xs, t)
	}
	if len(xs) == 0 {
		return tFalse
	}
	if len(xs) == 1 {
		return xs[0]
	}
	return app(SBool, "or", xs...)
}

func Not(t Term) Term {
	if t.S == "true" {
		return tFalse
	}
	if t.S == "false" {
		return tTrue
	}
	return app(SBool, "not", t)
}

func Implies(a, b Term) Term {
	if a.S == "true" {
		return b
	}
	if a.S == "false" || b.S == "true" {
		return tTrue
	}
	return app(SBool, "=>", a, b)
}

func Eq(a, b Term) Term {
	if a.S == b.S {
		return tTrue
	}
	return app(SBool, "=", a, b)
}

func Ite(c, a, b Term) Term {
	if c.S == "true" {
		return a
	}
	if c.S == "false" {
		return b
	}
	if a.S == b.S {
		return a
	}
	return app(a.Sort, "ite", c, a, b)
}

func Select(arr, idx Term, elem Sort) Term { return app(elem, "select", arr, idx) }
func Store(arr, idx, v Term) Term          { return app(arr.Sort, "store", arr, idx, v) }

func Add(a, b Term) Term { return app(SInt, "+", a, b) }
func Sub(a, b Term) Term { return app(SInt, "-", a, b) }
func Lt(a, b Term) Term  { return app(SBool, "<", a, b) }
func Le(a, b Term) Term  { return app(SBool, "<=", a, b) }

// sym quotes an SMT symbol.
func sym(name string) string {
	ok := true
	for _, r := range name {
		if !(r >= 'a' && r <= 'z' || r >= 'A' && r <= 'Z' || r >= '0' && r <= '9' || r == '_' || r == '.' || r == '!' || r == '$' || r == '@') {
			ok = false
			break
		}
	}
	if ok && len(name) > 0 && !(name[0] >= '0' && name[0] <= '9') {
		return name
	}
	name = strings.ReplaceAll(name, "|", "¦")
	name = strings.ReplaceAll(name, "\\", "/")
	return "|" + name + "|"
}

// Script accumulates declarations and facts for one function's VC.
type Script struct {
	lines  []string // declarations, definitions and asserts in order
	declrd map[string]bool
	nfresh int
}

func NewScript() *Script { return &Script{declrd: map[string]bool{}} }

func (s *Script) Mark() int { return len(s.lines) }

var boundSymRe = regexp.MustCompile(`q\.[A-Za-z_0-9]+!\d+`)

// rollbackTo drops what was asserted since the mark (a clause that turned out not to be evaluable). Declarations and
// definitions stay: the heap environment and the load cache may already refer to them. Definitions that mention a
// bound variable of an abandoned quantifier are dropped with it (nothing outside the quantifier can refer to them).
func (s *Script) rollbackTo(mark int) {
	var keep []string
	for _, l := range s.lines[mark:] {
		if strings.HasPrefix(l, "(declare-") || (strings.HasPrefix(l, "(define-") && !boundSymRe.MatchString(l)) {
			keep = append(keep, l)
		}
	}
	s.lines = append(s.lines[:mark], keep...)
}

func (s *Script) DeclareSort(name string) {
	if s.declrd["sort:"+name] {
		return
	}
	s.declrd["sort:"+name] = true
	s.lines = append(s.lines, fmt.Sprintf("(declare-sort %s 0)", name))
}

func (s *Script) ensureSort(so Sort) {
	if strings.Contains(string(so), "Flt") {
		s.DeclareSort("Flt")
	}
}

func (s *Script) DeclareConst(name string, so Sort) Term {
	q := sym(name)
	if !s.declrd[q] {
		s.ensureSort(so)
		s.declrd[q] = true
		s.lines = append(s.lines, fmt.Sprintf("(declare-fun %s () %s)", q, so))
	}
	return Term{q, so}
}

func (s *Script) Fresh(prefix string, so Sort) Term {
	s.nfresh++
	return s.DeclareConst(fmt.Sprintf("%s!%d", prefix, s.nfresh), so)
}

func (s *Script) DeclareFun(name string, args []Sort, ret Sort) string {
	q := sym(name)
	if !s.declrd[q] {
		s.ensureSort(ret)
		var as []string
		for _, a := range args {
			s.ensureSort(a)
			as = append(as, string(a))
		}
		s.declrd[q] = true
		s.lines = append(s.lines, fmt.Sprintf("(declare-fun %s (%s) %s)", q, strings.Join(as, " "), ret))
	}
	return q
}

// Define introduces a named abbreviation for t (keeps queries DAG-sized).
func (s *Script) Define(prefix string, t Term) Term {
	if len(t.S) < 40 {
		return t
	}
	s.nfresh++
	q := sym(fmt.Sprintf("%s!%d", prefix, s.nfresh))
	s.ensureSort(t.Sort)
	s.lines = append(s.lines, fmt.Sprintf("(define-fun %s () %s %s)", q, t.Sort, t.S))
	return Term{q, t.Sort}
}

func (s *Script) DefineNamed(name string, t Term) Term {
	q := sym(name)
	s.ensureSort(t.Sort)
	s.lines = append(s.lines, fmt.Sprintf("(define-fun %s () %s %s)", q, t.Sort, t.S))
	s.declrd[q] = true
	return Term{q, t.Sort}
}

func (s *Script) Assert(t Term) {
	if t.S == "true" {
		return
	}
	s.lines = append(s.lines, "(assert "+t.S+")")
}

func (s *Script) Raw(line string) { s.lines = append(s.lines, line) }

func (s *Script) Prefix(mark int) string {
	return strings.Join(s.lines[:mark], "\n")
}
