package main

import (
	"encoding/json"
	"go/token"
	"go/types"
	"reflect"
	"flag"
	"fmt"
	"os"
	"path/filepath"
	"regexp"
	"sort"
	"strconv"
	"strings"
	"time"

	"golang.org/x/tools/go/ssa"
)

const verifDir = "/verif"

// LockEntry describes one obligation *group*: all obligations of a function with the same kind and the same
// normalised source text. Groups (not ordinals) are compared at check time, so adding or removing an
// unrelated occurrence of the same expression does not shift identities.
type LockEntry struct {
	Discharged int    `json:"discharged"`
	Undecided  int    `json:"undecided"`
	Finding    bool   `json:"finding,omitempty"`
	Reason     string `json:"reason,omitempty"`
}

type LockFile struct {
	Note       string                           `json:"note"`
	Properties map[string]map[string]*LockEntry `json:"properties"`
	// Params: the parameter names of every function under contract when the lock was written. Contracts bind
	// parameters by position: if a parameter is renamed, the name used in the contract still denotes that position.
	Params map[string][]string `json:"params,omitempty"`
	// LoopVars: per function under contract and loop ordinal, the named variables the loop carries ("name|type").
	LoopVars map[string]map[string][]string `json:"loopvars,omitempty"`
}

func groupOf(id string) string {
	if k := strings.LastIndex(id, "#"); k > 0 {
		return id[:k]
	}
	return id
}

func funcKindOf(o *Obligation) string { return o.Func + "#" + o.Kind }

// outDir is where evidence and replay files go: /verif, or a scratch directory when a seeded change is checked in a
// scratch worktree (GOVC_OUT), so that such a run never rewrites the evidence of the unchanged tree.
func outDir() string {
	if d := os.Getenv("GOVC_OUT"); d != "" {
		return d
	}
	return verifDir
}

func lockPath() string { return filepath.Join(verifDir, "contracts", "LOCK.json") }

func loadLock() *LockFile {
	lf := &LockFile{Properties: map[string]map[string]*LockEntry{}}
	b, err := os.ReadFile(lockPath())
	if err == nil {
		json.Unmarshal(b, lf)
	}
	if lf.Properties == nil {
		lf.Properties = map[string]map[string]*LockEntry{}
	}
	return lf
}

type Finding struct {
	Kind       string // finding | fixed
	Property   string
	Obligation string
	Text       string
}

func loadFindings() []Finding {
	var out []Finding
	b, err := os.ReadFile(filepath.Join(verifDir, "known_findings.txt"))
	if err != nil {
		return nil
	}
	for _, l := range strings.Split(string(b), "\n") {
		l = strings.TrimSpace(l)
		if l == "" || strings.HasPrefix(l, "#") {
			continue
		}
		var f Finding
		switch {
		case strings.HasPrefix(l, "finding:"):
			f.Kind = "finding"
			l = strings.TrimSpace(strings.TrimPrefix(l, "finding:"))
		case strings.HasPrefix(l, "fixed:"):
			f.Kind = "fixed"
			l = strings.TrimSpace(strings.TrimPrefix(l, "fixed:"))
		default:
			continue
		}
		// property=Cxx obligation=<id with spaces until " :: "> :: text
		if m := regexp.MustCompile(`^property=(C\d+)\s+obligation=(.*?)\s+::\s+(.*)$`).FindStringSubmatch(l); m != nil {
			f.Property, f.Obligation, f.Text = m[1], m[2], m[3]
		} else if m := regexp.MustCompile(`^property=(C\d+)\s+(.*)$`).FindStringSubmatch(l); m != nil {
			f.Property, f.Text = m[1], m[2]
		}
		out = append(out, f)
	}
	return out
}

// propertyFunctions: which functions (and which obligations of them) belong to a property.
type propScope struct {
	fn       *ssa.Function
	allSafe  bool // every SAFE obligation counts (sweep)
	contract bool // contract clauses tagged with the property count
	dep      bool // a function of the property calls it and assumes its postconditions: all its clauses count
}

func (w *World) scopeOf(prop string) []*propScope {
	m := map[*ssa.Function]*propScope{}
	get := func(f *ssa.Function) *propScope {
		if m[f] == nil {
			m[f] = &propScope{fn: f}
		}
		return m[f]
	}
	for _, c := range w.Contracts.ByFunc {
		if c.Fn == nil || c.Trusted && len(c.Fn.Blocks) == 0 {
			continue
		}
		if contains(c.Props, prop) && !c.Trusted {
			get(c.Fn).contract = true
		}
	}
	for _, sw := range w.Contracts.Sweeps {
		if sw.Prop != prop {
			continue
		}
		for _, f := range w.AllFns {
			if !w.InModule(f) || len(f.Blocks) == 0 {
				continue
			}
			switch sw.Kind {
			case "file":
				if strings.HasSuffix(w.FileOfFunc(f), "/"+sw.Target) && !strings.HasSuffix(w.FileOfFunc(f), "_test.go") {
					get(f).allSafe = true
				}
			case "package":
				k := FuncKey(f)
				if strings.HasPrefix(k, sw.Pkg+".") {
					get(f).allSafe = true
				}
			case "func":
				if FuncKey(f) == sw.Target || FuncKey(f) == sw.Pkg+"."+sw.Target {
					get(f).allSafe = true
				}
			}
		}
	}
	// Modular verification: at a call the callee's postconditions are assumed. Whatever a function of the property
	// assumes that way has to be discharged under the same property, or the property would rest on a clause that only
	// some other check looks at. So the scope is closed under "calls a function that has postconditions" (closures of
	// a function are part of it: they are inlined where they are called).
	{
		var work []*ssa.Function
		for f := range m {
			work = append(work, f)
		}
		seen := map[*ssa.Function]bool{}
		var visit func(f *ssa.Function)
		visit = func(f *ssa.Function) {
			if seen[f] {
				return
			}
			seen[f] = true
			for _, b := range f.Blocks {
				for _, ins := range b.Instrs {
					if mc, ok := ins.(*ssa.MakeClosure); ok {
						if cf, ok := mc.Fn.(*ssa.Function); ok {
							visit(cf)
						}
					}
					ci, ok := ins.(ssa.CallInstruction)
					if !ok {
						continue
					}
					cal := ci.Common().StaticCallee()
					if cal == nil {
						continue
					}
					c := w.Contracts.ByFunc[cal]
					if c == nil || c.Trusted || len(cal.Blocks) == 0 || len(c.Ensures) == 0 || !w.InModule(cal) {
						continue
					}
					if strings.HasSuffix(w.FileOfFunc(cal), "_test.go") {
						continue
					}
					sc := get(cal)
					if !sc.dep {
						sc.dep = true
						work = append(work, cal)
					}
				}
			}
		}
		for len(work) > 0 {
			f := work[len(work)-1]
			work = work[:len(work)-1]
			visit(f)
		}
	}
	var out []*propScope
	for _, s := range m {
		if strings.HasSuffix(w.FileOfFunc(s.fn), "_test.go") {
			continue
		}
		out = append(out, s)
	}
	sort.Slice(out, func(i, j int) bool { return FuncKey(out[i].fn) < FuncKey(out[j].fn) })
	return out
}

type buildResult struct {
	obls        []*Obligation
	outOfSubset []string
	unboundClauses []string
	notes       map[string]bool
	nFuncs      int
	funcs       []string
}

// structObligations: facts about declarations, decided by go/types (no solver).
func (w *World) structObligations(prop string) []*Obligation {
	var out []*Obligation
	for _, sf := range w.Contracts.StructFacts {
		if sf.Prop != prop {
			continue
		}
		spec := sf.Spec
		want := "-"
		if k := strings.Index(spec, "="); k >= 0 {
			want = spec[k+1:]
			spec = spec[:k]
		}
		o := &Obligation{ID: fmt.Sprintf("STRUCT#%s:%s#0", sf.Kind, sf.Spec), Kind: "STRUCT", Func: "declarations", Text: sf.Spec, Solver: "go/types", Status: "unknown", presolved: true}
		if sf.Kind == "map-order" {
			out = append(out, w.mapOrderObligations(sf.Spec)...)
			continue
		}
		if sf.Kind == "json-marshaler" {
			o.ID = fmt.Sprintf("STRUCT#json-marshaler:%s#0", sf.Spec)
			o.Status = "sat"
			o.Model = "declaration not found"
			if k := strings.LastIndex(spec, "."); k > 0 {
				if t, err := w.resolveType(spec[:k], nil); err == nil {
					if st, ok := under(t).(*types.Struct); ok {
						for i := 0; i < st.NumFields(); i++ {
							if st.Field(i).Name() != spec[k+1:] {
								continue
							}
							ft := types.Unalias(st.Field(i).Type())
							wt, err := w.resolveType(want, nil)
							hasMethod := false
							if err == nil {
								ms := types.NewMethodSet(types.NewPointer(wt))
								hasMethod = ms.Lookup(nil, "MarshalJSON") != nil
							}
							if err == nil && types.Identical(ft, wt) && hasMethod {
								o.Status = "unsat"
								o.Model = ""
							} else {
								o.Model = fmt.Sprintf("field %s is declared as %s, not as %s: encoding/json does not call (%s).MarshalJSON for it", spec, ft, want, want)
							}
						}
					}
				}
			}
			out = append(out, o)
			continue
		}
		if sf.Kind == "json-numbers" {
			o.ID = fmt.Sprintf("STRUCT#json-numbers:no number of package %s is marshalled with omitempty#0", sf.Spec)
			o.Text = "json-numbers " + sf.Spec
			o.Status = "unsat"
			var bad []string
			for path, p := range w.PkgByID {
				if shortPkg(path) != sf.Spec || !strings.HasPrefix(path, modulePath) || p.TypesInfo == nil {
					continue
				}
				for id, obj := range p.TypesInfo.Defs {
					tn, ok := obj.(*types.TypeName)
					if !ok || tn.IsAlias() {
						continue
					}
					if strings.HasSuffix(w.Fset.Position(id.Pos()).Filename, "_test.go") {
						continue
					}
					st, ok := under(tn.Type()).(*types.Struct)
					if !ok {
						continue
					}
					for i := 0; i < st.NumFields(); i++ {
						tag := reflect.StructTag(st.Tag(i)).Get("json")
						parts := strings.Split(tag, ",")
						if len(parts) < 2 || !contains(parts[1:], "omitempty") {
							continue
						}
						if b, ok := under(st.Field(i).Type()).(*types.Basic); ok && b.Info()&types.IsNumeric != 0 {
							bad = append(bad, fmt.Sprintf("%s.%s (%s) at %s", tn.Name(), st.Field(i).Name(), st.Field(i).Type(), w.Fset.Position(st.Field(i).Pos())))
						}
					}
				}
			}
			if len(bad) > 0 {
				sort.Strings(bad)
				o.Status = "sat"
				o.Model = "a zero value is written like an absent one: " + strings.Join(bad, "; ")
			}
			out = append(out, o)
			continue
		}
		if sf.Kind == "pass-order" {
			o.Solver = "go/ssa"
			o.Status, o.Model = w.passOrder(sf.Spec)
			out = append(out, o)
			continue
		}
		k := strings.LastIndex(spec, ".")
		if k > 0 {
			if t, err := w.resolveType(spec[:k], nil); err == nil {
				if st, ok := under(t).(*types.Struct); ok {
					for i := 0; i < st.NumFields(); i++ {
						if st.Field(i).Name() != spec[k+1:] {
							continue
						}
						tag := reflect.StructTag(st.Tag(i)).Get("json")
						name := strings.Split(tag, ",")[0]
						switch sf.Kind {
						case "json-hidden":
							if tag == "-" {
								o.Status = "unsat"
							} else {
								o.Status = "sat"
								o.Model = "field is JSON-visible: tag " + strconv.Quote(st.Tag(i))
							}
						case "json-visible":
							if tag != "-" && (name == want || (name == "" && want == st.Field(i).Name())) && st.Field(i).Exported() {
								o.Status = "unsat"
							} else {
								o.Status = "sat"
								o.Model = "tag is " + strconv.Quote(st.Tag(i))
							}
						}
					}
				}
			}
		}
		out = append(out, o)
	}
	return out
}

func (w *World) buildProperty(prop string) *buildResult {
	br := &buildResult{notes: map[string]bool{}}
	br.obls = append(br.obls, w.structObligations(prop)...)
	for _, sc := range w.scopeOf(prop) {
		v := NewFnVC(w, sc.fn)
		if err := v.Build(); err != nil {
			br.outOfSubset = append(br.outOfSubset, FuncKey(sc.fn)+": "+err.Error())
			continue
		}
		br.nFuncs++
		br.funcs = append(br.funcs, FuncKey(sc.fn))
		for _, u := range v.unboundClauses {
			br.unboundClauses = append(br.unboundClauses, v.idKey()+"#"+u)
		}
		for n := range v.notes {
			br.notes[n] = true
		}
		for _, o := range v.obls {
			isSafe := strings.HasPrefix(o.Kind, "SAFE-")
			if isSafe {
				if sc.allSafe {
					br.obls = append(br.obls, o)
				}
				continue
			}
			if sc.dep {
				br.obls = append(br.obls, o)
				continue
			}
			// contract obligation: clause-level tags override function-level tags
			if o.Clause != nil && len(o.Clause.Props) > 0 {
				if contains(o.Clause.Props, prop) {
					br.obls = append(br.obls, o)
				}
				continue
			}
			if sc.contract {
				br.obls = append(br.obls, o)
			}
		}
	}
	return br
}

func discharged(o *Obligation) bool {
	if o.Expect == "sat" {
		return o.Status == "sat"
	}
	if o.Expect == "notunsat" {
		// canary: `false` must not be provable at the function's exit (the assumptions are not contradictory)
		return o.Status == "sat" || o.Status == "unknown" || o.Status == "timeout"
	}
	return o.Status == "unsat"
}

// ---------------- relock ----------------

func cmdRelock(args []string) int {
	fs := flag.NewFlagSet("relock", flag.ExitOnError)
	pflag := fs.String("p", "", "property (default: all with scope)")
	fs.Parse(args)
	w := mustWorld()
	lf := loadLock()
	lf.Note = "obligations discharged on the unchanged tree within the lock budget; regenerated only by 'govc relock'"
	props := allProps()
	if *pflag != "" {
		props = strings.Split(*pflag, ",")
	}
	findings := loadFindings()
	for _, p := range props {
		br := w.buildProperty(p)
		if len(br.obls) == 0 {
			delete(lf.Properties, p)
			continue
		}
		// lock budget: 2 s on at least two back ends (1/5 of the quick timeout)
		type res struct{ ok int }
		SolveLock(br.obls)
		ent := map[string]*LockEntry{}
		nd := 0
		for _, o := range br.obls {
			g := groupOf(o.ID)
			e := ent[g]
			if e == nil {
				e = &LockEntry{}
				ent[g] = e
			}
			if o.lockOK {
				e.Discharged++
				nd++
			} else {
				e.Undecided++
				e.Reason = o.Status
				for _, f := range findings {
					if f.Kind == "finding" && f.Property == p && groupOf(f.Obligation) == g {
						e.Finding = true
					}
				}
			}
		}
		lf.Properties[p] = ent
		fmt.Printf("%s: %d obligations, %d locked as discharged, %d functions, %d out of subset\n", p, len(br.obls), nd, br.nFuncs, len(br.outOfSubset))
		for _, o := range br.obls {
			if o.Kind == "STRUCT" && o.Status != "unsat" {
				fmt.Printf("  STRUCT not established: %s: %s\n", o.ID, o.Model)
			}
			if o.Kind == "CANARY" && o.Status == "unsat" {
				fmt.Printf("VACUOUS property=%s obligation=%q: contradictory assumptions on the unchanged tree (fix the contracts or the engine before claiming anything)\n", p, o.ID)
				relockVacuous++
			}
		}
	}
	loopVarsReset := false
	if *pflag == "" {
		lf.Params = map[string][]string{}
	} else if lf.Params == nil {
		lf.Params = map[string][]string{}
	}
	for f, c := range w.Contracts.ByFunc {
		if c == nil || f == nil || !w.InModule(f) {
			continue
		}
		var names []string
		for _, p := range f.Params {
			names = append(names, p.Name())
		}
		if len(names) > 0 {
			lf.Params[FuncKey(f)] = names
		}
		if lf.LoopVars == nil || *pflag == "" && !loopVarsReset {
			lf.LoopVars = map[string]map[string][]string{}
			loopVarsReset = true
		}
		if sig := loopVarSignature(f); len(sig) > 0 {
			lf.LoopVars[FuncKey(f)] = sig
		}
	}
	b, _ := json.MarshalIndent(lf, "", " ")
	os.MkdirAll(filepath.Dir(lockPath()), 0o755)
	os.WriteFile(lockPath(), b, 0o644)
	if relockVacuous > 0 {
		return 3
	}
	return 0
}

var relockVacuous int

func allProps() []string {
	var out []string
	for i := 1; i <= 20; i++ {
		out = append(out, fmt.Sprintf("C%02d", i))
	}
	return out
}

// SolveLock: an obligation is lockable when two back ends discharge it within the lock budget.
func SolveLock(obls []*Obligation) {
	type job struct{ o *Obligation }
	ch := make(chan *Obligation)
	done := make(chan bool)
	for i := 0; i < 16; i++ {
		go func() {
			for o := range ch {
				if o.presolved {
					o.lockOK = o.Status == "unsat"
					continue
				}
				file := filepath.Join(scratchDir(), fmt.Sprintf("l%p.smt2", o))
				os.WriteFile(file, []byte(o.Query(false)), 0o644)
				if o.Expect == "notunsat" {
					st, _, el := runSolver(solvers[0], file, 3*time.Second, 0)
					st2 := st
					if st != "unsat" {
						st2, _, _ = runSolver(solvers[1], file, 3*time.Second, 0)
					}
					o.Status = st
					if st2 == "unsat" {
						o.Status = "unsat"
					}
					o.Ms = el.Milliseconds()
					o.lockOK = o.Status != "unsat" && o.Status != "error"
					o.Solver = solvers[0].name
					os.Remove(file)
					continue
				}
				want := "unsat"
				if o.Expect == "sat" {
					want = "sat"
				}
				ok := 0
				var tot time.Duration
				o.Status = "unknown"
				files := []string{file}
				if o.HasVariant() && o.Expect != "sat" {
					// the second formulation of the goal counts like the first: two confirmations of either
					file1 := filepath.Join(scratchDir(), fmt.Sprintf("l%pv.smt2", o))
					os.WriteFile(file1, []byte(o.QueryVariant(1)), 0o644)
					files = append(files, file1)
					defer os.Remove(file1)
				}
				for _, qf := range files {
					ok = 0
					first := ""
					for _, sp := range solvers {
						st, _, el := runSolver(sp, qf, lockBudget, 0)
						tot += el
						if st == want {
							ok++
							if first == "" {
								first = sp.name
							}
							if o.Solver == "" {
								o.Solver = sp.name
							}
						} else if st == "sat" || st == "unsat" {
							o.Status = st
						} else if o.Status == "unknown" {
							o.Status = st
						}
						if ok >= 2 {
							break
						}
					}
					if ok == 1 {
						// one back end only (the others ran out of the lock budget, typically on string-heavy queries):
						// a second, differently seeded run of the primary solver inside the budget is accepted as the
						// second confirmation
						if st, _, el := runSolver(solvers[0], qf, lockBudget, 7); st == want {
							tot += el
							if first == solvers[0].name {
								ok++
							}
						}
					}
					if ok >= 2 {
						break
					}
				}
				o.Ms = tot.Milliseconds()
				if ok >= 2 {
					o.lockOK = true
					o.Status = want
				}
				os.Remove(file)
			}
			done <- true
		}()
	}
	for _, o := range obls {
		ch <- o
	}
	close(ch)
	for i := 0; i < 16; i++ {
		<-done
	}
}

// ---------------- check ----------------

type Evidence struct {
	PropertyID  string         `json:"property_id"`
	Tier        string         `json:"tier"`
	Seed        int            `json:"seed"`
	Level       string         `json:"level"`
	Coverage    map[string]any `json:"coverage"`
	Assumptions []string       `json:"assumptions"`
	WallS       float64        `json:"wall_s"`
	Violations  int            `json:"violations"`
}

var trustedBase = []string{
	"govc itself: go/ssa -> SMT translation (/verif/govc), go/packages, go/ssa, go/types",
	"SMT solvers z3 4.8.12, z3 5.1.0, cvc5 1.0.3",
	"library stubs in /verif/contracts/stubs (fmt, errors, strings, sort, os, yaml.v3, participle, encoding/json)",
	"non-module functions outside {yaml.v3, encoding/json, sort, slices, koanf, cobra, participle, reflect, text/template} do not write module-visible heap",
	"String()/Error()/MarshalJSON methods called back from libraries do not mutate the model",
	"C++ headers, Python/MATLAB runtime files, third-party libraries, compilers and interpreters of the target languages",
}

func cmdCheck(args []string) int {
	fs := flag.NewFlagSet("check", flag.ExitOnError)
	prop := fs.String("p", "", "property id")
	tier := fs.String("tier", "", "quick | thorough")
	fs.Parse(args)
	if *prop == "" {
		usage()
	}
	if *tier == "" {
		*tier = os.Getenv("VERIF_TIER")
	}
	if *tier == "" {
		*tier = "quick"
	}
	seed, _ := strconv.Atoi(os.Getenv("VERIF_SEED"))
	t0 := time.Now()
	w := mustWorld()
	lf := loadLock()
	locked := lf.Properties[*prop]
	br := w.buildProperty(*prop)
	findings := loadFindings()

	groups := map[string][]*Obligation{}
	for _, o := range br.obls {
		groups[groupOf(o.ID)] = append(groups[groupOf(o.ID)], o)
	}
	var toSolve []*Obligation
	var newObls []*Obligation
	baselineUndecided := 0
	var baselineUndecidedSample []string
	for g, os := range groups {
		e := locked[g]
		switch {
		case e == nil:
			newObls = append(newObls, os...)
			toSolve = append(toSolve, os...)
		case e.Discharged > 0 || e.Finding:
			toSolve = append(toSolve, os...)
		default:
			if len(os) > 0 && os[0].Kind == "CANARY" {
				// a vacuity guard is never "baseline-undecided": it is solved on every run and `false` being provable
				// is reported (the machinery is broken there, whatever the lock says)
				toSolve = append(toSolve, os...)
				continue
			}
			baselineUndecided += len(os)
			if len(baselineUndecidedSample) < 10 {
				baselineUndecidedSample = append(baselineUndecidedSample, g)
			}
			if *tier == "thorough" {
				toSolve = append(toSolve, os...)
			}
		}
	}
	sort.Slice(toSolve, func(i, j int) bool { return toSolve[i].ID < toSolve[j].ID })
	sort.Strings(baselineUndecidedSample)
	var missing []string
	lostFK := map[string]bool{} // func#kind pairs that lost a discharged group
	for g, e := range locked {
		if groups[g] == nil && e.Discharged > 0 {
			missing = append(missing, g)
			if k := strings.Index(g, ":"); k > 0 {
				lostFK[g[:k]] = true
			}
		}
	}
	sort.Strings(missing)
	opts := solveOpts{timeout: 10 * time.Second, seed: seed, getModel: true}
	if *tier == "thorough" {
		opts.timeout = 60 * time.Second
		opts.all = true
	}
	SolveAll(toSolve, opts, 16)
	// second chance for obligations of locked groups that did not come back in time (load spikes, seeds)
	var retry []*Obligation
	for _, o := range toSolve {
		if e := locked[groupOf(o.ID)]; e != nil && e.Discharged > 0 && !discharged(o) && o.Status != "sat" && o.Status != "unsat" {
			retry = append(retry, o)
		}
	}
	if len(retry) > 0 {
		o2 := opts
		o2.timeout = 3 * opts.timeout
		o2.seed = seed + 1
		o2.all = true
		SolveAll(retry, o2, 4)
	}

	violations := 0
	nLocked, nDischarged := 0, 0
	var solverMs int64
	byBackend := map[string]int{}
	var samples []any
	var undecidedNew []string
	var knownPrinted []string
	os.RemoveAll(filepath.Join(outDir(), "replays", *prop))
	os.MkdirAll(filepath.Join(outDir(), "replays", *prop), 0o755)
	report := func(o *Obligation, why string) {
		for _, f := range findings {
			if f.Kind == "finding" && f.Property == *prop && groupOf(f.Obligation) == groupOf(o.ID) {
				line := fmt.Sprintf("KNOWN-FINDING: property=%s %s [%s]", *prop, f.Text, groupOf(o.ID))
				fmt.Println(line)
				knownPrinted = append(knownPrinted, line)
				return
			}
		}
		violations++
		rp := filepath.Join(outDir(), "replays", *prop, fmt.Sprintf("v%03d.json", violations))
		rr := tryReplay(w, o)
		rec := map[string]any{"property": *prop, "obligation": o.ID, "kind": o.Kind, "position": o.Pos, "why": why,
			"solver_status": o.Status, "solver": o.Solver, "solver_output": truncate(o.Model, 6000), "replay": rr}
		b, _ := json.MarshalIndent(rec, "", " ")
		os.WriteFile(rp, b, 0o644)
		suffix := ""
		if rr == nil || !rr.Reproduced {
			suffix = " no-failing-input-found"
		}
		fmt.Printf("VIOLATION property=%s replay=%s obligation=%q%s\n", *prop, rp, o.ID, suffix)
	}
	for _, o := range toSolve {
		solverMs += o.Ms
	}
	var gnames []string
	for g := range groups {
		gnames = append(gnames, g)
	}
	sort.Strings(gnames)
	// 1. locked groups: the number of discharged members must not drop while undischarged members appear
	for _, g := range gnames {
		e := locked[g]
		if e == nil || (e.Discharged == 0 && !e.Finding) {
			continue
		}
		os := groups[g]
		var und []*Obligation
		d := 0
		for _, o := range os {
			if discharged(o) {
				d++
				byBackend[o.Solver]++
				if len(samples) < 8 {
					samples = append(samples, map[string]any{"obligation": o.ID, "at": o.Pos, "solver": o.Solver, "ms": o.Ms, "query_bytes": queryLen(o)})
				}
			} else {
				und = append(und, o)
			}
		}
		// members of a partly discharged group that were undecided on the unchanged tree too are not claimed
		if e.Undecided > 0 {
			n := e.Undecided
			if len(und) < n {
				n = len(und)
			}
			baselineUndecided += n
		}
		want := e.Discharged
		if len(os) < e.Discharged+e.Undecided {
			// occurrences were removed from the code: expect proportionally fewer
			want = e.Discharged - (e.Discharged + e.Undecided - len(os))
			if want < 0 {
				want = 0
			}
		}
		nLocked += want
		if d >= want {
			nDischarged += want
		} else {
			nDischarged += d
		}
		extra := len(und) - e.Undecided
		isContractKind := len(os) > 0 && !strings.HasPrefix(os[0].Kind, "SAFE-")
		if isContractKind && e.Undecided == 0 && len(und) > 0 {
			// a contract clause that was proved on every path: any path on which it is no longer proved is a violation
			if d >= want {
				nDischarged -= 0
			}
			for _, o := range und {
				report(o, "contract clause proved on the unchanged tree is no longer proved on every path")
			}
		} else if d < want && extra > 0 {
			for i, o := range und {
				if i >= extra && e.Discharged+e.Undecided >= len(os) {
					break
				}
				report(o, "obligation discharged on the unchanged tree is no longer discharged")
			}
			if k := strings.Index(g, ":"); k > 0 {
				lostFK[g[:k]] = true
			}
		} else if e.Finding && len(und) > 0 {
			for _, o := range und {
				report(o, "known finding")
			}
		}
	}
	// 2. new groups: a violation needs a replayed counterexample (entry functions), or a solver model for an
	// obligation that replaces a proved one of the same kind in the same function
	for _, o := range newObls {
		if discharged(o) {
			continue
		}
		if o.Kind == "STRUCT" && o.Status == "sat" {
			// decided on the SSA, not by a solver: a definite failure also when the code is new
			report(o, "structural obligation fails: "+o.Model)
			continue
		}
		if o.Status == "sat" && o.Expect != "sat" {
			if w.isEntry(o.Func) {
				if rr := tryReplay(w, o); rr != nil && rr.Reproduced {
					report(o, "new obligation with a counterexample that replays on the real code")
					continue
				}
			}
		}
		undecidedNew = append(undecidedNew, o.ID+" ["+o.Status+"]")
		fmt.Printf("UNDECIDED property=%s obligation=%q status=%s\n", *prop, o.ID, o.Status)
	}
	// A contract bound to "the closure of P that prints literal L" whose clauses were proved at lock time: when P still
	// exists and no closure of it prints L any more, the emitted statement the clauses pin down is gone or respelled.
	// Without a semantics of the target language that cannot be waved through (DESIGN 2, emission events).
	{
		reported := map[string]bool{}
		var rest []string
		for _, id := range missing {
			k := strings.Index(id, "@emits:")
			h := strings.Index(id, "#")
			if k > 0 && h > k {
				parent, key := id[:k], id[:h]
				kind := id[h+1:]
				if c := strings.Index(kind, ":"); c > 0 {
					kind = kind[:c]
				}
				e := locked[id]
				if w.Funcs[parent] != nil && w.Contracts.ByKey[key] != nil && w.Contracts.ByKey[key].Fn == nil && e != nil && e.Discharged > 0 && (kind == "POST" || kind == "ITER" || kind == "INV-pres" || kind == "INV-init") {
					if !reported[key] {
						reported[key] = true
						o := &Obligation{ID: id + "#0", Kind: kind, Func: parent, Status: "vanished", Solver: "go/ssa",
							Model: "no closure of " + parent + " prints the format literal the contract " + key + " is bound to"}
						report(o, "the emitted statement a proved contract is bound to is no longer printed")
					}
					continue
				}
			}
			rest = append(rest, id)
		}
		missing = rest
	}
	for _, id := range missing {
		fmt.Printf("MISSING property=%s obligation-group=%q (function or expression no longer present; not a violation by itself)\n", *prop, id)
	}
	// A clause that was proved at lock time and now cannot be evaluated although every name in it still exists: what it
	// talks about changed its type or shape (a map keyed by something else, a field that is no longer a pointer). That
	// is a change of the thing the clause pins down, not a rename; it is reported. (A name that vanished is not: a
	// plain rename of a local would otherwise raise an alarm on correct code.)
	{
		var rest []string
		for _, u := range br.unboundClauses {
			h := strings.Index(u, "#")
			c := strings.Index(u, ": spec:")
			hit := ""
			if h > 0 && c > h && !strings.Contains(u[c:], "unknown identifier") {
				fk, name := u[:h], u[h+1:c]
				for g, e := range locked {
					if e.Discharged > 0 && strings.HasPrefix(g, fk+"#") && strings.HasSuffix(g, ":"+name) && (strings.HasPrefix(g[len(fk)+1:], "POST:") || strings.HasPrefix(g[len(fk)+1:], "ITER:")) {
						hit = g
					}
				}
			}
			if hit != "" {
				kind := "POST"
				if strings.Contains(hit, "#ITER:") {
					kind = "ITER"
				}
				o := &Obligation{ID: hit + "#0", Kind: kind, Func: u[:h], Status: "ill-typed", Solver: "go/types", Model: u[c+2:]}
				report(o, "a proved clause no longer fits the code it is about: "+u[c+2:])
				continue
			}
			rest = append(rest, u)
		}
		br.unboundClauses = rest
	}
	for _, u := range br.unboundClauses {
		fmt.Printf("UNBOUND-CLAUSE %s (the clause names something the function no longer has; no obligation is generated for it, the other clauses of the function are checked)\n", u)
	}
	for _, u := range br.outOfSubset {
		// a contract whose clauses were proved names a format literal that no statement of the module prints any more:
		// the emitted statement the clauses pin down is gone or respelled (same reasoning as for vanished closures)
		if k := strings.Index(u, ": contract of "); k > 0 && strings.Contains(u, "names the format literal") {
			fk := u[:k]
			hit := ""
			for g, e := range locked {
				if e.Discharged > 0 && strings.HasPrefix(g, fk+"#") && (strings.HasPrefix(g[len(fk)+1:], "POST:") || strings.HasPrefix(g[len(fk)+1:], "ITER:") || strings.HasPrefix(g[len(fk)+1:], "INV-")) {
					if hit == "" || g < hit {
						hit = g
					}
				}
			}
			if hit != "" {
				o := &Obligation{ID: hit + "#0", Kind: "POST", Func: fk, Status: "vanished", Solver: "go/ssa", Model: u[k+2:]}
				report(o, "the emitted statement a proved contract names is no longer printed: "+u[k+2:])
			}
		}
		// The contract of a function whose clauses were proved at lock time no longer fits the function: a clause that
		// every obligation depends on (requires, invariant) cannot be evaluated although the names in it exist - a
		// parameter the contract talks about was removed or changed its type, a local changed its shape - or it names a
		// parameter that the function had at lock time and has no longer. The function then produces no obligation at
		// all; silence would let the whole contract be waved through (seeded change C10-i removes the import-chain
		// parameter of collectPackages together with the cycle test). A vanished *local* is still not reported.
		if k := strings.Index(u, ": spec: "); k > 0 && !strings.Contains(u, "names the format literal") {
			fk := u[:k]
			msg := u[k+2:]
			shape := !strings.Contains(msg, "unknown identifier")
			if !shape {
				// unknown identifier "x": a violation only if x was a parameter when the lock was written
				if q := strings.Index(msg, "unknown identifier \""); q >= 0 {
					name := msg[q+len("unknown identifier \""):]
					if e := strings.Index(name, "\""); e > 0 {
						name = name[:e]
					}
					for _, pn := range lf.Params[fk] {
						if pn == name {
							shape = true
						}
					}
				}
			}
			if shape && w.Funcs[fk] != nil {
				hit := ""
				for g, e := range locked {
					if e.Discharged > 0 && strings.HasPrefix(g, fk+"#") && (strings.HasPrefix(g[len(fk)+1:], "POST:") || strings.HasPrefix(g[len(fk)+1:], "ITER:") || strings.HasPrefix(g[len(fk)+1:], "INV-")) {
						// name a postcondition when there is one (P sorts before I only by accident of spelling)
						better := hit == "" || (strings.Contains(g, "#POST:") && !strings.Contains(hit, "#POST:")) ||
							(strings.Contains(g, "#POST:") == strings.Contains(hit, "#POST:") && g < hit)
						if better {
							hit = g
						}
					}
				}
				if hit != "" {
					o := &Obligation{ID: hit + "#0", Kind: "POST", Func: fk, Status: "ill-typed", Solver: "go/types", Model: msg}
					report(o, "the proved contract of a function no longer fits its signature or locals: "+msg)
				}
			}
		}
		fmt.Printf("OUT-OF-SUBSET %s\n", u)
	}
	if nLocked == 0 && violations == 0 {
		fmt.Printf("govc: property %s has no locked obligations: the check is vacuous and counts as broken\n", *prop)
		writeEvidence(*prop, *tier, seed, nil, time.Since(t0), 1)
		return 2
	}
	var notes []string
	for n := range br.notes {
		notes = append(notes, n)
	}
	sort.Strings(notes)
	cov := map[string]any{
		"obligations":              nLocked,
		"discharged":               nDischarged,
		"checker_cmd":              fmt.Sprintf("/verif/bin/govc check -p %s -tier %s", *prop, *tier),
		"trusted_base":             trustedBase,
		"samples":                  samples,
		"functions_under_contract": br.funcs,
		"functions":                br.nFuncs,
		"by_backend":               byBackend,
		"solver_time_s":            float64(solverMs) / 1000,
		"baseline_undecided":       baselineUndecided,
		"baseline_undecided_sample": baselineUndecidedSample,
		"new_obligations":          len(newObls),
		"new_undecided":            undecidedNew,
		"missing_locked":           missing,
		"out_of_subset":            br.outOfSubset,
		"unbound_clauses":          br.unboundClauses,
		"unbound_contracts":        w.Contracts.Unbound,
		"known_findings":           knownPrinted,
		"contract_files":           w.Contracts.Files,
		"pure_declarations_not_confirmed_by_effect_analysis": w.PureUnverified,
		"integers":                 "mathematical Int with machine ranges assumed on inputs/loads; conversions wrap; overflow of + - * is not checked",
	}
	assumptions := append([]string{}, notes...)
	assumptions = append(assumptions, propertyAssumptions(*prop)...)
	assumptions = append(assumptions, "functions marked pure / assigns nothing in contract files are trusted not to modify caller-visible heap", "the visitor/rewriter frameworks call only the callbacks they are given (callback-parametric declaration)")
	ev := &Evidence{PropertyID: *prop, Tier: *tier, Seed: seed, Level: "proof", Coverage: cov, Assumptions: assumptions,
		WallS: time.Since(t0).Seconds(), Violations: violations}
	b, _ := json.MarshalIndent(ev, "", " ")
	os.MkdirAll(filepath.Join(outDir(), "evidence"), 0o755)
	os.WriteFile(filepath.Join(outDir(), "evidence", *prop+".json"), b, 0o644)
	fmt.Printf("govc: %s %s: %d/%d locked obligations discharged, %d baseline-undecided (not claimed), %d new, %d functions, %.1fs\n",
		*prop, *tier, nDischarged, nLocked, baselineUndecided, len(newObls), br.nFuncs, time.Since(t0).Seconds())
	if violations > 0 {
		return 1
	}
	vacuous := 0
	for _, o := range toSolve {
		if o.Kind == "CANARY" && o.Status == "unsat" {
			if e := locked[groupOf(o.ID)]; e == nil || e.Discharged == 0 {
				fmt.Printf("VACUOUS property=%s obligation=%q: the assumptions collected in this function are contradictory; nothing proved after this point counts\n", *prop, o.ID)
				vacuous++
			}
		}
	}
	if vacuous > 0 {
		return 2
	}
	return 0
}

func writeEvidence(prop, tier string, seed int, cov map[string]any, d time.Duration, viol int) {
	if cov == nil {
		cov = map[string]any{"obligations": 0, "discharged": 0, "checker_cmd": "govc check", "trusted_base": trustedBase}
	}
	ev := &Evidence{PropertyID: prop, Tier: tier, Seed: seed, Level: "proof", Coverage: cov, WallS: d.Seconds(), Violations: viol}
	b, _ := json.MarshalIndent(ev, "", " ")
	os.MkdirAll(filepath.Join(outDir(), "evidence"), 0o755)
	os.WriteFile(filepath.Join(outDir(), "evidence", prop+".json"), b, 0o644)
}

func head(xs []string, n int) []string {
	if len(xs) > n {
		return xs[:n]
	}
	return xs
}

func truncate(s string, n int) string {
	if len(s) > n {
		return s[:n] + "…"
	}
	return s
}

func propertyAssumptions(p string) []string {
	b, err := os.ReadFile(filepath.Join(verifDir, "contracts", "assumptions.json"))
	if err != nil {
		return nil
	}
	m := map[string][]string{}
	json.Unmarshal(b, &m)
	return append(m["all"], m[p]...)
}

type ReplayResult struct {
	Reproduced bool   `json:"reproduced"`
	Detail     string `json:"detail"`
	PackageDir string `json:"package_dir,omitempty"`
	TestSource string `json:"test_source,omitempty"`
	Output     string `json:"output,omitempty"`
}

func cmdReplay(args []string) int {
	if len(args) < 1 {
		usage()
	}
	b, err := os.ReadFile(args[0])
	if err != nil {
		fmt.Println(err)
		return 2
	}
	var rec map[string]any
	json.Unmarshal(b, &rec)
	rr, _ := rec["replay"].(map[string]any)
	if rr == nil || rr["test_source"] == nil {
		fmt.Printf("replay file names obligation %v; no executable input was found by the solver\n", rec["obligation"])
		fmt.Println(rec["solver_output"])
		return 1
	}
	out, failed := runOverlayTest(rr["package_dir"].(string), rr["test_source"].(string))
	fmt.Println(out)
	if failed {
		return 1
	}
	return 0
}

// isEntry: functions whose inputs come straight from a library (yaml nodes, strings) and are therefore
// adversarial modulo the stated requires/axioms. Only for these is a replayed function-level panic a
// violation of a system-level property.
func (w *World) isEntry(key string) bool {
	f := w.Funcs[key]
	if f == nil {
		return false
	}
	if c := w.Contracts.ByFunc[f]; c != nil && c.Entry {
		return true
	}
	return w.Contracts.MethodNonNil[f.Name()] && f.Signature.Recv() != nil
}

func queryLen(o *Obligation) int {
	if o.presolved || o.sc == nil {
		return 0
	}
	return len(o.Query(false))
}

// passOrder decides "Driver: A < B": Driver stores function constants into one array literal at constant indices,
// nothing else writes that array, the only dynamic call of Driver takes its callee from an element of that array
// inside a loop whose index advances by one (a range loop), and A and B occur exactly once with A first.
func (w *World) passOrder(spec string) (string, string) {
	k := strings.Index(spec, ": ")
	parts := strings.Split(spec[k+2:], " < ")
	drv := w.Funcs[spec[:k]]
	if drv == nil || len(parts) != 2 {
		return "sat", "driver function not found: " + spec[:k]
	}
	byAlloc := map[*ssa.Alloc]map[int64]string{}
	bad := map[*ssa.Alloc]string{}
	var dyn []*ssa.Call
	for _, b := range drv.Blocks {
		for _, ins := range b.Instrs {
			switch x := ins.(type) {
			case *ssa.Store:
				ia, ok := x.Addr.(*ssa.IndexAddr)
				if !ok {
					continue
				}
				al, ok := ia.X.(*ssa.Alloc)
				if !ok {
					continue
				}
				val := x.Val
				if ct, ok := val.(*ssa.ChangeType); ok {
					val = ct.X
				}
				fn, isFn := val.(*ssa.Function)
				c, isConst := ia.Index.(*ssa.Const)
				if !isFn || !isConst {
					bad[al] = "a store into the literal is not 'constant index := function constant'"
					continue
				}
				if byAlloc[al] == nil {
					byAlloc[al] = map[int64]string{}
				}
				if _, dup := byAlloc[al][c.Int64()]; dup {
					bad[al] = "an element of the literal is stored twice"
				}
				byAlloc[al][c.Int64()] = FuncKey(fn)
			case *ssa.Call:
				if !x.Call.IsInvoke() && x.Call.StaticCallee() == nil {
					if _, isBuiltin := x.Call.Value.(*ssa.Builtin); !isBuiltin {
						dyn = append(dyn, x)
					}
				}
			}
		}
	}
	if len(dyn) != 1 {
		return "sat", fmt.Sprintf("%s has %d calls through function values, expected exactly one", spec[:k], len(dyn))
	}
	// callee = *(&slice[i]) with slice = literal[:] and i = phi(.., i+1)
	ld, ok := dyn[0].Call.Value.(*ssa.UnOp)
	if !ok {
		return "sat", "the dynamic call does not load its callee from a slice element"
	}
	ia, ok := ld.X.(*ssa.IndexAddr)
	if !ok {
		return "sat", "the dynamic call does not load its callee from a slice element"
	}
	sl, ok := ia.X.(*ssa.Slice)
	if !ok || sl.Low != nil || sl.High != nil {
		return "sat", "the callee slice is not the whole literal"
	}
	al, ok := sl.X.(*ssa.Alloc)
	if !ok || byAlloc[al] == nil {
		return "sat", "the callee slice is not a literal of function constants"
	}
	if bad[al] != "" {
		return "sat", bad[al]
	}
	for _, r := range *al.Referrers() {
		switch r.(type) {
		case *ssa.IndexAddr, *ssa.Slice, *ssa.DebugRef:
		default:
			return "sat", "the literal escapes"
		}
	}
	if n := len(*sl.Referrers()); n > 2 {
		// a range loop refers to the slice in len() and in the element address only
		for _, r := range *sl.Referrers() {
			switch y := r.(type) {
			case *ssa.IndexAddr, *ssa.DebugRef:
			case *ssa.Call:
				if bi, ok := y.Call.Value.(*ssa.Builtin); !ok || bi.Name() != "len" {
					return "sat", "the slice of passes is used outside the loop"
				}
			default:
				return "sat", "the slice of passes is used outside the loop"
			}
		}
	}
	phi, ok := ia.Index.(*ssa.Phi)
	if !ok {
		// a range loop keeps a hidden counter that starts at -1 and indexes with counter + 1
		if bo, isBin := ia.Index.(*ssa.BinOp); isBin && bo.Op == token.ADD {
			if c, isC := bo.Y.(*ssa.Const); isC && c.Int64() == 1 {
				if p2, isPhi := bo.X.(*ssa.Phi); isPhi {
					startsBefore := false
					for _, e := range p2.Edges {
						if c, isC := e.(*ssa.Const); isC && c.Int64() == -1 {
							startsBefore = true
						}
					}
					if startsBefore {
						phi, ok = p2, true
					}
				}
			}
		}
	}
	if !ok || len(phi.Edges) != 2 {
		return "sat", "the loop index is not a simple counter"
	}
	okStep := false
	for _, e := range phi.Edges {
		if bo, ok := e.(*ssa.BinOp); ok && bo.Op == token.ADD && bo.X == phi {
			if c, ok := bo.Y.(*ssa.Const); ok && c.Int64() == 1 {
				okStep = true
			}
		} else if c, ok := e.(*ssa.Const); !ok || c.Int64() != -1 && c.Int64() != 0 {
			return "sat", "the loop index does not start at the first element"
		}
	}
	if !okStep {
		return "sat", "the loop index does not advance by one"
	}
	m := byAlloc[al]
	if int64(len(m)) != al.Type().Underlying().(*types.Pointer).Elem().Underlying().(*types.Array).Len() {
		return "sat", "not every element of the literal is a function constant"
	}
	pos := func(key string) (int64, int) {
		at, n := int64(-1), 0
		for i, f := range m {
			if f == key {
				at = i
				n++
			}
		}
		return at, n
	}
	ia1, n1 := pos(parts[0])
	ib1, n2 := pos(parts[1])
	if n1 != 1 || n2 != 1 {
		return "sat", fmt.Sprintf("%s occurs %d times and %s %d times in the pass list", parts[0], n1, parts[1], n2)
	}
	if ia1 >= ib1 {
		return "sat", fmt.Sprintf("%s is pass %d and runs after %s (pass %d)", parts[0], ia1, parts[1], ib1)
	}
	return "unsat", ""
}

// mapOrderObligations: one obligation per `range` over a map in the functions of a package. The loop body may not
// (a) call anything that may print generator output, (b) append to a slice that no later statement of the function
// sorts. Everything else a body does (filling maps, counting, setting flags, comparing) is taken as order-independent.
func (w *World) mapOrderObligations(pkgShort string) []*Obligation {
	var out []*Obligation
	var fns []*ssa.Function
	for _, f := range w.AllFns {
		if !w.InModule(f) || len(f.Blocks) == 0 || isGenericTemplate(f) {
			continue
		}
		path := ""
		for g := f; g != nil && path == ""; g = g.Parent() {
			if g.Pkg != nil {
				path = g.Pkg.Pkg.Path()
			} else if o := g.Origin(); o != nil && o.Pkg != nil {
				path = o.Pkg.Pkg.Path()
			}
		}
		if path == "" || shortPkg(path) != pkgShort {
			continue
		}
		if strings.HasSuffix(w.FileOfFunc(f), "_test.go") {
			continue
		}
		fns = append(fns, f)
	}
	sort.Slice(fns, func(i, j int) bool { return FuncKey(fns[i]) < FuncKey(fns[j]) })
	for _, f := range fns {
		n := 0
		for _, b := range f.Blocks {
			for _, ins := range b.Instrs {
				rg, ok := ins.(*ssa.Range)
				if !ok {
					continue
				}
				mt, ok := under(rg.X.Type()).(*types.Map)
				if !ok {
					continue
				}
				id := fmt.Sprintf("%s#STRUCT:map-range over %s is order-independent#%d", FuncKey(f), typeKey(mt), n)
				n++
				o := &Obligation{ID: id, Kind: "STRUCT", Func: FuncKey(f), Text: "map-range order", Solver: "go/ssa", Status: "unsat", presolved: true}
				o.Pos = w.Fset.Position(rg.Pos()).String()
				if why := w.mapRangeOrderDependence(f, rg); why != "" {
					// printing inside the loop is a definite dependence on the iteration order; an unsorted slice or
					// a call through a function value may still be put in order by someone else: undecided
					o.Status = "unknown"
					if strings.Contains(why, "print") {
						o.Status = "sat"
					}
					o.Model = why
				}
				out = append(out, o)
			}
		}
	}
	return out
}

func (w *World) mapRangeOrderDependence(f *ssa.Function, rg *ssa.Range) string {
	// the loop: blocks that can reach the block of the Next instruction and are reachable from it
	var next *ssa.Next
	for _, r := range *rg.Referrers() {
		if n, ok := r.(*ssa.Next); ok {
			next = n
		}
	}
	if next == nil {
		return ""
	}
	head := next.Block()
	reach := func(from *ssa.BasicBlock) map[int]bool {
		seen := map[int]bool{}
		work := append([]*ssa.BasicBlock(nil), from.Succs...)
		for len(work) > 0 {
			x := work[len(work)-1]
			work = work[:len(work)-1]
			if seen[x.Index] {
				continue
			}
			seen[x.Index] = true
			work = append(work, x.Succs...)
		}
		return seen
	}
	fromHead := reach(head)
	body := map[int]bool{}
	for _, b := range f.Blocks {
		if fromHead[b.Index] && reach(b)[head.Index] {
			body[b.Index] = true
		}
	}
	body[head.Index] = true
	sortedLater := func(v ssa.Value) bool {
		// some call to sort.* / slices.Sort* in the function takes a slice of the same class as v
		cls := sliceClassOf(f, v)
		for _, b := range f.Blocks {
			for _, ins := range b.Instrs {
				ci, ok := ins.(ssa.CallInstruction)
				if !ok {
					continue
				}
				sc := ci.Common().StaticCallee()
				if sc == nil {
					continue
				}
				name := sc.String()
				if !(strings.HasPrefix(name, "sort.") || strings.HasPrefix(name, "slices.Sort")) || len(ci.Common().Args) == 0 {
					continue
				}
				a := ci.Common().Args[0]
				if mk, ok := a.(*ssa.MakeInterface); ok {
					a = mk.X
				}
				if ct, ok := a.(*ssa.ChangeType); ok {
					a = ct.X
				}
				if cls[a] {
					return true
				}
			}
		}
		return false
	}
	for _, b := range f.Blocks {
		if !body[b.Index] {
			continue
		}
		for _, ins := range b.Instrs {
			ci, ok := ins.(ssa.CallInstruction)
			if !ok {
				continue
			}
			c := ci.Common()
			if bi, ok := c.Value.(*ssa.Builtin); ok {
				if bi.Name() == "append" {
					if v, ok := ins.(ssa.Value); ok && !sortedLater(v) {
						if fld := w.unsortedFieldSink(f, v); fld != "" {
							// the slice ends in a struct field that no function of the module ever sorts: its order is
							// the map's order wherever it is used (definite, like printing)
							return "the loop appends to a slice that nothing sorts (kept in " + fld + ", which no function of the module hands to a sort): prints map order: " + w.Fset.Position(ins.Pos()).String()
						}
						return "the loop appends to a slice that is never sorted: " + w.Fset.Position(ins.Pos()).String()
					}
				}
				continue
			}
			if sc := c.StaticCallee(); sc != nil {
				if isEmitSink(sc) {
					return "the loop prints generator output: " + w.Fset.Position(ins.Pos()).String()
				}
				if isLogSink(sc) {
					return "the loop prints a log line per element: " + w.Fset.Position(ins.Pos()).String()
				}
				if w.InModule(sc) {
					fm, top := w.mods.MayEmit(sc)
					if top || len(fm) > 0 {
						return "the loop calls " + FuncKey(sc) + ", which may print generator output: " + w.Fset.Position(ins.Pos()).String()
					}
				}
				continue
			}
			if !c.IsInvoke() {
				return "the loop calls a function value: " + w.Fset.Position(ins.Pos()).String()
			}
		}
	}
	// a return from inside the loop whose result is computed from the element being visited: which element that is
	// depends on the order unless at most one element can get there (not decided here)
	var elems []ssa.Value
	for _, r := range *next.Referrers() {
		if ex, ok := r.(*ssa.Extract); ok && ex.Index > 0 {
			elems = append(elems, ex)
		}
	}
	dependsOnElem := func(v ssa.Value) bool {
		seen := map[ssa.Value]bool{}
		var walk func(x ssa.Value, depth int) bool
		walk = func(x ssa.Value, depth int) bool {
			if x == nil || seen[x] || depth > 12 {
				return false
			}
			seen[x] = true
			for _, e := range elems {
				if x == e {
					return true
				}
			}
			ins, ok := x.(ssa.Instruction)
			if !ok {
				return false
			}
			if _, isPhi := x.(*ssa.Phi); isPhi {
				return false
			}
			for _, op := range ins.Operands(nil) {
				if op != nil && *op != nil && walk(*op, depth+1) {
					return true
				}
			}
			// a value read from a cell that the loop fills from the element (varargs packs, boxed operands)
			if u, ok := x.(*ssa.UnOp); ok && u.Op == token.MUL {
				_ = u
			}
			if al, ok := x.(*ssa.Alloc); ok && al.Referrers() != nil {
				for _, r := range *al.Referrers() {
					switch y := r.(type) {
					case *ssa.Store:
						if walk(y.Val, depth+1) {
							return true
						}
					case *ssa.IndexAddr:
						if y.Referrers() != nil {
							for _, r2 := range *y.Referrers() {
								if st, ok := r2.(*ssa.Store); ok && walk(st.Val, depth+1) {
									return true
								}
							}
						}
					}
				}
			}
			return false
		}
		return walk(v, 0)
	}
	for _, b := range f.Blocks {
		if !body[b.Index] || len(b.Instrs) == 0 {
			continue
		}
		for _, succ := range b.Succs {
			if body[succ.Index] || len(succ.Instrs) == 0 {
				continue
			}
			// an exit edge of the loop other than the normal exit at the head
			if b == head {
				continue
			}
			if ret, ok := succ.Instrs[len(succ.Instrs)-1].(*ssa.Return); ok && len(succ.Preds) == 1 {
				for _, r := range ret.Results {
					if dependsOnElem(r) {
						return "the loop returns a value computed from the element it is visiting: " + w.Fset.Position(ret.Pos()).String()
					}
				}
			}
		}
		if ret, ok := b.Instrs[len(b.Instrs)-1].(*ssa.Return); ok {
			for _, r := range ret.Results {
				if dependsOnElem(r) {
					return "the loop returns a value computed from the element it is visiting: " + w.Fset.Position(ret.Pos()).String()
				}
			}
		}
	}
	return ""
}

// unsortedFieldSink: the slice class of v is used, besides indexing / len / range / append, only by being stored into
// struct fields, and no function of the module passes a value read from one of those fields to sort.* / slices.Sort*.
// Returns the field ("T.f") or "".
func (w *World) unsortedFieldSink(f *ssa.Function, v ssa.Value) string {
	cls := sliceClassOf(f, v)
	type fkey struct {
		st  string
		idx int
	}
	var fields []fkey
	var names []string
	for m := range cls {
		refs := m.Referrers()
		if refs == nil {
			continue
		}
		for _, r := range *refs {
			switch x := r.(type) {
			case *ssa.Store:
				if x.Val != m {
					continue
				}
				switch a := x.Addr.(type) {
				case *ssa.FieldAddr:
					pt, ok := under(a.X.Type()).(*types.Pointer)
					if !ok {
						return ""
					}
					stt, ok := under(pt.Elem()).(*types.Struct)
					if !ok {
						return ""
					}
					fields = append(fields, fkey{typeKey(pt.Elem()), a.Field})
					names = append(names, typeKey(pt.Elem())+"."+stt.Field(a.Field).Name())
				case *ssa.Alloc:
					// the variable's own cell (class member)
				default:
					return ""
				}
			case *ssa.Return, *ssa.MakeInterface, *ssa.MakeClosure, *ssa.Send, *ssa.MapUpdate:
				return ""
			case ssa.CallInstruction:
				if bi, ok := x.Common().Value.(*ssa.Builtin); ok {
					switch bi.Name() {
					case "append", "len", "cap":
						continue
					}
				}
				return "" // handed to some function: it may sort it
			}
		}
	}
	if len(fields) == 0 {
		return ""
	}
	for _, g := range w.Funcs {
		if !w.InModule(g) {
			continue
		}
		for _, b := range g.Blocks {
			for _, ins := range b.Instrs {
				ci, ok := ins.(ssa.CallInstruction)
				if !ok {
					continue
				}
				sc := ci.Common().StaticCallee()
				if sc == nil || len(ci.Common().Args) == 0 {
					continue
				}
				name := sc.String()
				if !(strings.HasPrefix(name, "sort.") || strings.HasPrefix(name, "slices.Sort")) {
					continue
				}
				a := ci.Common().Args[0]
				if mk, ok := a.(*ssa.MakeInterface); ok {
					a = mk.X
				}
				if ct, ok := a.(*ssa.ChangeType); ok {
					a = ct.X
				}
				for m := range sliceClassOf(g, a) {
					u, ok := m.(*ssa.UnOp)
					if !ok || u.Op != token.MUL {
						continue
					}
					fa, ok := u.X.(*ssa.FieldAddr)
					if !ok {
						continue
					}
					pt, ok := under(fa.X.Type()).(*types.Pointer)
					if !ok {
						continue
					}
					for _, fk := range fields {
						if fk.st == typeKey(pt.Elem()) && fk.idx == fa.Field {
							return ""
						}
					}
				}
			}
		}
	}
	sort.Strings(names)
	return names[0]
}

// isLogSink: zerolog events written per call (diagnostics on stderr).
func isLogSink(f *ssa.Function) bool {
	if f.Signature.Recv() == nil {
		return false
	}
	switch f.Name() {
	case "Msg", "Msgf", "Send":
		return typeKey(types.Unalias(f.Signature.Recv().Type())) == "*zerolog.Event"
	}
	return false
}

// sliceClassOf: slice values of f that may share a backing array with v (phi, reslice, type change, append chains).
func sliceClassOf(f *ssa.Function, v ssa.Value) map[ssa.Value]bool {
	parent := map[ssa.Value]ssa.Value{}
	var find func(x ssa.Value) ssa.Value
	find = func(x ssa.Value) ssa.Value {
		if p, ok := parent[x]; ok && p != x {
			r := find(p)
			parent[x] = r
			return r
		}
		parent[x] = x
		return x
	}
	union := func(a, b ssa.Value) { parent[find(a)] = find(b) }
	for _, b := range f.Blocks {
		for _, ins := range b.Instrs {
			switch x := ins.(type) {
			case *ssa.Call:
				if bi, ok := x.Call.Value.(*ssa.Builtin); ok && bi.Name() == "append" && len(x.Call.Args) > 0 {
					union(x, x.Call.Args[0])
				}
			case *ssa.Phi:
				if _, ok := under(x.Type()).(*types.Slice); ok {
					for _, e := range x.Edges {
						if _, isC := e.(*ssa.Const); !isC {
							union(x, e)
						}
					}
				}
			case *ssa.Slice:
				union(x, x.X)
			case *ssa.ChangeType:
				union(x, x.X)
			case *ssa.Store:
				// a slice variable that lives in a cell (captured by a closure): what is stored and what is loaded
				if al, ok := x.Addr.(*ssa.Alloc); ok {
					if _, isSl := under(x.Val.Type()).(*types.Slice); isSl {
						union(x.Val, al)
					}
				}
			case *ssa.UnOp:
				if al, ok := x.X.(*ssa.Alloc); ok && x.Op == token.MUL {
					if _, isSl := under(x.Type()).(*types.Slice); isSl {
						union(x, al)
					}
				}
			}
		}
	}
	out := map[ssa.Value]bool{}
	r := find(v)
	for x := range parent {
		if find(x) == r {
			out[x] = true
		}
	}
	return out
}

// isEmitSink: library or formatting calls that append text to an output being built.
func isEmitSink(f *ssa.Function) bool {
	switch f.String() {
	case "fmt.Fprintf", "fmt.Fprintln", "fmt.Fprint":
		return true
	}
	if f.Signature.Recv() != nil {
		switch f.Name() {
		case "Write", "WriteString", "WriteStringln", "WriteByte", "WriteRune":
			k := typeKey(types.Unalias(f.Signature.Recv().Type()))
			return k == "*formatting.IndentedWriter" || k == "*strings.Builder" || k == "*bytes.Buffer"
		}
	}
	return false
}

// lockBudget: an obligation is claimed only if it is discharged twice within this time on the unchanged tree
// (half of the quick timeout, which is retried with three times the time before a locked obligation counts as lost).
const lockBudget = 5 * time.Second
