package main

import (
	"fmt"
	"go/types"
	"strings"

	"golang.org/x/tools/go/ssa"
)

const maxInlineDepth = 6
const maxInlineInstrs = 60

func (v *FnVC) call(fr *frame, st *State, x ssa.CallInstruction) Val {
	res := v.call1(fr, st, x)
	// ghost observers of direct calls made by the function under verification
	// a call through a function-typed parameter of the function under verification is observed where the function makes
	// it itself and where one of its own inlined closures makes it through the captured parameter
	var viaParam *ssa.Parameter
	maybeParam := false
	if !x.Common().IsInvoke() && x.Common().StaticCallee() == nil && (fr.top || fr.own || fr.ownCtx) && v.top != nil {
		// the called value is compared with the parameters by identity: a parameter that closures capture lives in a
		// cell, so the call goes through a load, not through the *ssa.Parameter itself
		if par, ok := x.Common().Value.(*ssa.Parameter); ok && fr.top {
			viaParam = par
		} else if cur, ok := fr.vals[x.Common().Value].(FuncV); ok && cur.Fn == nil && cur.Ref.S != "" {

			for _, p := range v.fn.Params {
				if _, isSig := under(p.Type()).(*types.Signature); !isSig {
					continue
				}
				if pv, ok := v.top.vals[p].(FuncV); ok && pv.Fn == nil && pv.Ref.S != "" {
					if pv.Ref.S == cur.Ref.S {
						viaParam = p
					} else if strings.Contains(cur.Ref.S, pv.Ref.S) {
						maybeParam = true
					}
				}
			}
		}
	}
	if maybeParam && viaParam == nil {
		// the value may or may not be one of the parameters (a conditional): their observers become unknown
		for _, p := range v.fn.Params {
			if _, isSig := under(p.Type()).(*types.Signature); !isSig {
				continue
			}
			k := "param:" + p.Name()
			for _, g := range []string{"called#", "errSeen#"} {
				old := st.ghostGet(g + k)
				n := v.sc.Fresh("ghost", SBool)
				v.sc.Assert(Implies(old, n))
				st.ghost[g+k] = n
			}
			old := tZero
			if t, ok := st.ghost["count#"+k]; ok {
				old = t
			}
			n := v.sc.Fresh("ghostn", SInt)
			v.sc.Assert(Le(old, n))
			st.ghost["count#"+k] = n
		}
	}
	if viaParam != nil {
		{
			par := viaParam
			// called(p) / errSeen(p) / calls(p)
			k := "param:" + par.Name()
			st.ghost["called#"+k] = tTrue
			{
				n := tZero
				if t, ok := st.ghost["count#"+k]; ok {
					n = t
				}
				st.ghost["count#"+k] = v.sc.Define("ghostn", Add(n, IntLit(1)))
			}
			sig := x.Common().Signature().Results()
			if n := sig.Len(); n > 0 && isErrorType(sig.At(n-1).Type()) {
				var ev Val = res
				if n > 1 {
					ev = res.(TupleV).E[n-1]
				}
				if iv, ok := ev.(IfaceV); ok {
					st.ghost["errSeen#"+k] = v.sc.Define("ghost", Or(st.ghostGet("errSeen#"+k), Not(Eq(iv.Tag, tZero))))
				}
			}
		}
	}
	if fr.top {
		if cal := x.Common().StaticCallee(); cal != nil {
			k := FuncKey(cal)
			st.ghost["called#"+k] = tTrue
			{
				// calls(f): how many direct calls of f this activation has made
				n := tZero
				if t, ok := st.ghost["count#"+k]; ok {
					n = t
				}
				st.ghost["count#"+k] = v.sc.Define("ghostn", Add(n, IntLit(1)))
			}
			if v.w.Contracts.argObserved(k) {
				// lastArg(f, i): the i-th operand (receiver first) of the most recent direct call of f
				for ai, a := range x.Common().Args {
					av := v.value(fr, a)
					if _, isPtr := av.(PtrV); isPtr {
						continue
					}
					for i, t := range flatten(v.scalarizeVal(av)) {
						st.ghost[fmt.Sprintf("arg#%s#%d#%d", k, ai, i)] = t
					}
				}
			}
			if cal.Signature.Results().Len() > 0 {
				if _, isPtr := res.(PtrV); !isPtr {
					for i, t := range flatten(v.scalarizeVal(res)) {
						st.ghost[fmt.Sprintf("res#%s#%d", k, i)] = t
					}
				}
			}
			sig := cal.Signature.Results()
			if n := sig.Len(); n > 0 && isErrorType(sig.At(n-1).Type()) {
				var ev Val = res
				if n > 1 {
					ev = res.(TupleV).E[n-1]
				}
				if iv, ok := ev.(IfaceV); ok {
					st.ghost["errSeen#"+k] = v.sc.Define("ghost", Or(st.ghostGet("errSeen#"+k), Not(Eq(iv.Tag, tZero))))
				}
			}
		}
	}
	return res
}

func (v *FnVC) call1(fr *frame, st *State, x ssa.CallInstruction) Val {
	c := x.Common()
	reach := fr.reach[fr.curBlock.Index]
	resT := c.Signature().Results()
	var rt types.Type = resT
	if resT.Len() == 1 {
		rt = resT.At(0).Type()
	}
	// builtins
	if bi, ok := c.Value.(*ssa.Builtin); ok {
		return v.builtin(fr, st, x, bi)
	}
	var args []Val
	if c.IsInvoke() {
		recv := v.value(fr, c.Value)
		iv, ok := recv.(IfaceV)
		if !ok {
			panic(unsupported("invoke on %T", recv))
		}
		v.safe(fr, "nil", x, Not(Eq(iv.Tag, tZero)))
		args = append(args, recv)
	}
	for _, a := range c.Args {
		args = append(args, v.value(fr, a))
	}
	callee := c.StaticCallee()
	var bind []Val
	if callee == nil && !c.IsInvoke() && (fr.top || fr.own) {
		if nt, ok := types.Unalias(c.Value.Type()).(*types.Named); ok && v.w.Contracts.FuncValueNonNil[typeKey(nt)] {
			for i, a := range args {
				switch av := a.(type) {
				case IfaceV:
					o := v.addObl("PRE", fmt.Sprintf("%s:operand %d != nil", typeKey(nt), i), x.Pos(), reach, Not(Eq(av.Tag, tZero)), nil, "")
					_ = o
					v.sc.Assert(Implies(reach, Not(Eq(av.Tag, tZero))))
				case Sc:
					if _, isPtr := under(c.Args[i].Type()).(*types.Pointer); isPtr {
						v.addObl("PRE", fmt.Sprintf("%s:operand %d != nil", typeKey(nt), i), x.Pos(), reach, Not(Eq(av.T, tZero)), nil, "")
						v.sc.Assert(Implies(reach, Not(Eq(av.T, tZero))))
					}
				}
			}
		}
	}
	if callee == nil && !c.IsInvoke() {
		if fv, ok := v.value(fr, c.Value).(FuncV); ok && fv.Fn != nil {
			callee = fv.Fn
			bind = fv.Bind
		} else if sv, ok := v.value(fr, c.Value).(Sc); ok {
			v.safe(fr, "nil", x, Not(Eq(sv.T, tZero)))
		} else if fv, ok := v.value(fr, c.Value).(FuncV); ok && fv.Ref.S != "" {
			v.safe(fr, "nil", x, Not(Eq(fv.Ref, tZero)))
		}
	} else if callee != nil {
		if mc, ok := c.Value.(*ssa.MakeClosure); ok {
			for _, b := range mc.Bindings {
				bind = append(bind, v.value(fr, b))
			}
		}
	}
	if callee != nil {
		// zerolog-style panics
		if isPanicCall(callee) {
			if fr.top {
				v.addObl("SAFE-panic", v.exprTextFor("panic", x), x.Pos(), reach, tFalse, nil, "")
			}
			v.sc.Assert(Not(reach))
			return v.freshTyped("ret", rt, st, reach)
		}
		if res, ok := v.emitIntrinsic(fr, st, callee, args, x); ok {
			return res
		}
		if res, ok := v.intrinsic(fr, st, callee, args, x); ok {
			return res
		}
		if con := v.w.Contracts.ByFunc[callee]; con != nil && !con.SafeOnly && !con.Inline {
			return v.applyContract(fr, st, con, callee, args, bind, x, rt)
		}
		if v.canInline(fr, callee) {
			return v.inline(fr, st, callee, args, bind, rt)
		}
	} else if c.IsInvoke() {
		// interface method with a contract on the interface itself (e.g. error.Error)
		if con := v.w.Contracts.ByKey[invokeKey(c)]; con != nil {
			return v.applyIfaceContract(fr, st, con, c, args, x, rt)
		}
	}
	// unknown effect
	v.withLocalFrame(fr, st, func() {
		for _, a := range args {
			v.escapeArg(st, a, x)
		}
		ms := v.callMods(x)
		v.applyMods(st, ms)
	})
	v.bumpAlloc(st, reach)
	{
		fm, top := v.callMayEmit(x)
		v.havocEmits(st, fm, top)
	}
	res := v.freshTyped("ret."+calleeName(c), rt, st, reach)
	v.libraryPost(fr, st, x, args, res, reach)
	return res
}

// libraryPost: facts about the result of modelled library calls (trusted, listed in evidence).
// yaml.v3 (*Node).Decode / DecodeWithOptions into a `**T` target: a node whose resolved tag is not "!!null" that
// decodes without error leaves a non-nil pointer in the target (decode.go allocates the pointee before it unmarshals
// into it; only a null node stores nil).
func (v *FnVC) libraryPost(fr *frame, st *State, x ssa.CallInstruction, args []Val, res Val, reach Term) {
	c := x.Common()
	sc := c.StaticCallee()
	if sc == nil {
		return
	}
	switch sc.String() {
	case "(*gopkg.in/yaml.v3.Node).Decode", "(*gopkg.in/yaml.v3.Node).DecodeWithOptions":
	default:
		return
	}
	if len(c.Args) < 2 || len(args) < 2 {
		return
	}
	mk, ok := c.Args[1].(*ssa.MakeInterface)
	if !ok {
		return
	}
	pp, ok := under(mk.X.Type()).(*types.Pointer)
	if !ok {
		return
	}
	inner, ok := under(pp.Elem()).(*types.Pointer)
	if !ok {
		return
	}
	if _, isStruct := under(inner.Elem()).(*types.Struct); !isStruct {
		return
	}
	node, ok := args[0].(Sc)
	if !ok {
		return
	}
	errV, ok := res.(IfaceV)
	if !ok {
		return
	}
	cell := v.value(fr, mk.X)
	after, ok := v.deref(st, cell, pp.Elem(), reach).(Sc)
	if !ok {
		return
	}
	nt := c.Args[0].Type()
	npt, ok := under(nt).(*types.Pointer)
	if !ok {
		return
	}
	nst, ok := under(npt.Elem()).(*types.Struct)
	if !ok {
		return
	}
	var tag, kind Term
	found, foundKind := false, false
	for i := 0; i < nst.NumFields(); i++ {
		if nst.Field(i).Name() == "Tag" {
			tv := v.loadLoc(st, Loc{Kind: locField, Base: node.T, T: nst.Field(i).Type(), SKey: structKey(npt.Elem()), FName: "Tag"}, reach)
			if ts, ok := tv.(Sc); ok {
				tag = ts.T
				found = true
			}
		}
		if nst.Field(i).Name() == "Kind" {
			kv := v.loadLoc(st, Loc{Kind: locField, Base: node.T, T: nst.Field(i).Type(), SKey: structKey(npt.Elem()), FName: "Kind"}, reach)
			if ks, ok := kv.(Sc); ok {
				kind = ks.T
				foundKind = true
			}
		}
	}
	if !found || !foundKind {
		return
	}
	// an alias node (Kind == AliasNode == 16) decodes what it refers to, which may be a null: nothing is known then
	v.note("yaml.v3: decoding a non-alias node whose tag is not !!null into a **T target leaves a non-nil pointer (library fact)")
	v.sc.Assert(Implies(And(reach, Eq(errV.Tag, tZero), Not(Eq(tag, StrLit("!!null"))), Not(Eq(kind, IntLit(16)))), Not(Eq(after.T, tZero))))
}

func calleeName(c *ssa.CallCommon) string {
	if f := c.StaticCallee(); f != nil {
		return f.Name()
	}
	if c.IsInvoke() {
		return c.Method.Name()
	}
	return "dyn"
}

// escapeArg: a syntactic pointer handed to an unknown callee may be written through.
func (v *FnVC) escapeArg(st *State, a Val, x ssa.CallInstruction) {
	p, ok := a.(PtrV)
	if !ok {
		return
	}
	prefix, two := v.locFams(p.L)
	t := p.L.T
	var sorts []Sort
	if kindOf(t) == kScalar || kindOf(t) == kFunc {
		sorts = []Sort{scalarSort(t)}
	} else {
		sorts = flatSorts(t)
	}
	for i, suf := range compSuffixes(t) {
		if two {
			v.he.havocFam(st, prefix+suf, arr2Sort(sorts[i]))
		} else {
			v.he.havocFam(st, prefix+suf, arrSort(sorts[i]))
		}
	}
}

func isPanicCall(f *ssa.Function) bool {
	switch f.String() {
	case "github.com/rs/zerolog/log.Panic", "github.com/rs/zerolog/log.Fatal", "os.Exit", "log.Fatal", "log.Fatalf", "log.Panic", "log.Panicf":
		return true
	}
	return false
}

func intrinsicPure(f *ssa.Function) bool {
	s := f.String()
	for _, p := range []string{"fmt.Sprintf", "fmt.Errorf", "fmt.Sprint", "errors.New", "strings.", "strconv.", "unicode.", "(*github.com/rs/zerolog", "github.com/rs/zerolog"} {
		if strings.HasPrefix(s, p) {
			return true
		}
	}
	return false
}

func (v *FnVC) canInline(fr *frame, callee *ssa.Function) bool {
	if len(callee.Blocks) == 0 {
		return false
	}
	// Helpers that take a function (common.WriteBlockBody(w, func() {...})) are re-entered through their callback as
	// deep as the source nests them, and so are the anonymous closures of the function under verification: both are
	// bounded by the lexical nesting, so they get a deeper limit and may be re-entered; anything else is inlined at
	// most once at a time (recursion is not unrolled).
	lexical := takesFunc(callee) || (callee.Parent() != nil && isAncestor(v.fn, callee))
	if lexical {
		if fr.depth >= 3*maxInlineDepth || v.inlining[callee] >= 6 {
			return false
		}
	} else if fr.depth >= maxInlineDepth || v.inlining[callee] > 0 {
		return false
	}
	if con := v.w.Contracts.ByFunc[callee]; con != nil && con.NoInline {
		return false
	}
	if !v.w.InModule(callee) {
		return false
	}
	if v.w.IsParametric(callee) && !(v.w.Contracts.ParametricFuncs[FuncKey(callee)] && takesFunc(callee)) && !(callee.Parent() != nil && isAncestor(v.fn, callee)) {
		// higher-order framework functions (visitors, rewriters) are summarised by the effects of their callbacks; a
		// small helper that is declared parametric by name (common.WriteBlockBody) is still inlined when it can be
		return false
	}
	n := 0
	ownClosure := callee.Parent() != nil && isAncestor(v.fn, callee) && (v.w.Contracts.ByFunc[callee] == nil || v.w.Contracts.ByFunc[callee].Inline)
	for _, b := range callee.Blocks {
		n += len(b.Instrs)
		for _, s := range b.Succs {
			if isBackEdge(b, s) && !ownClosure {
				// loops of ordinary callees need the callee's own invariants; loops of the function's own
				// anonymous closures are cut with the auto-invariants only (no unchecked user invariant involved)
				return false
			}
		}
		for _, ins := range b.Instrs {
			switch d := ins.(type) {
			case *ssa.Defer:
				if !deferRunsAtEveryExit(d) {
					return false
				}
			case *ssa.Go, *ssa.Select, *ssa.Send:
				return false
			}
		}
	}
	if con := v.w.Contracts.ByFunc[callee]; con != nil && con.Inline {
		return true
	}
	if callee.Parent() != nil && fr.fn != nil && (callee.Parent() == fr.fn || isAncestor(fr.fn, callee) || isAncestor(v.fn, callee)) {
		// anonymous closures of the function being executed (w.Indented(func() {...})) are part of its body
		return n <= 600
	}
	return n <= maxInlineInstrs
}

func (v *FnVC) inline(fr *frame, st *State, callee *ssa.Function, args, bind []Val, rt types.Type) Val {
	reach := fr.reach[fr.curBlock.Index]
	sub := &frame{fn: callee, depth: fr.depth + 1, params: args, freeVars: bind, entry: st.clone()}
	sub.own = (fr.top || fr.own || fr.ownCtx) && callee.Parent() != nil && isAncestor(v.fn, callee) && callee.Name() != "" && (v.w.Contracts.ByFunc[callee] == nil || v.w.Contracts.ByFunc[callee].Inline)
	// a helper that only calls the function it is given (common.WriteBlockBody): the closures of the verified function
	// that it calls back are still part of that function's body
	sub.ownCtx = (fr.top || fr.own || fr.ownCtx) && !sub.own && takesFunc(callee)
	if len(args) != len(callee.Params) || len(bind) != len(callee.FreeVars) {
		panic(unsupported("inline arity mismatch for %s", callee.Name()))
	}
	v.inlining[callee]++
	defer func() { v.inlining[callee]-- }()
	v.runFrame(sub, st, reach)
	if len(sub.rets) == 0 {
		// callee never returns
		v.sc.Assert(Not(reach))
		return v.freshTyped("ret", rt, st, reach)
	}
	var ins []edgeState
	for _, r := range sub.rets {
		ins = append(ins, edgeState{r.reach, r.st})
	}
	merged := v.he.merge(ins)
	*st = *merged
	// paths that panic inside the callee do not return: the continuation is reached only through a return
	var rs []Term
	for _, r := range sub.rets {
		rs = append(rs, r.reach)
	}
	v.sc.Assert(Implies(reach, Or(rs...)))
	return v.mergeRets(sub.rets, callee.Signature.Results())
}

// ---------- contracts at call sites ----------

func (v *FnVC) applyContract(fr *frame, st *State, con *Contract, callee *ssa.Function, args, bind []Val, x ssa.CallInstruction, rt types.Type) Val {
	reach := fr.reach[fr.curBlock.Index]
	sub := &frame{fn: callee, params: args, freeVars: bind, depth: fr.depth + 1}
	sub.vals = map[ssa.Value]Val{}
	for i, p := range callee.Params {
		if i < len(args) {
			sub.vals[p] = args[i]
		}
	}
	for i, p := range callee.FreeVars {
		if i < len(bind) {
			sub.vals[p] = bind[i]
		} else {
			sub.vals[p] = v.freshTyped("fv."+p.Name(), p.Type(), st, reach)
		}
	}
	pre := st.clone()
	sub.entry = pre
	if fr.top || fr.own {
		for _, c := range con.Requires {
			env := &specEnv{v: v, fr: sub, st: pre, old: pre}
			t := env.evalBool(c.Expr)
			o := v.addObl("PRE", calleeShort(callee)+":"+clauseName(c), x.Pos(), reach, t, c.Props, "")
			o.Clause = c
			v.sc.Assert(Implies(reach, t))
		}
	}
	if fr.top && con.Decreases != nil && (callee == v.fn || (v.con != nil && v.con.Decreases != nil && v.w.reaches(callee, v.fn))) {
		// termination: the measure is non-negative and strictly smaller at a (mutually) recursive call; every
		// function of the cycle carries its own measure expression
		envNew := &specEnv{v: v, fr: sub, st: pre, old: pre}
		envOld := &specEnv{v: v, fr: fr, st: fr.entry, old: fr.entry}
		mNew := envNew.eval(con.Decreases.Expr).V.(Sc).T
		mOld := envOld.eval(v.con.Decreases.Expr).V.(Sc).T
		o := v.addObl("TERM", "decreases "+normText(con.Decreases.Text), x.Pos(), reach, And(Le(tZero, mNew), Lt(mNew, mOld)), con.Decreases.Props, "")
		o.Clause = con.Decreases
	}
	var res Val
	if con.Pure {
		pargs, suffix := args, ""
		if callee.Signature.Variadic() && x != nil && len(x.Common().Args) == len(args) && len(args) > 0 {
			// a variadic pure function applied to a pack of known length is a function of the packed values,
			// not of the identity of the pack (so that two applications to equal values agree)
			last := len(args) - 1
			et := under(callee.Params[last].Type()).(*types.Slice).Elem()
			if pk := v.packLen(x.Common().Args[last]); pk >= 0 && kindOf(et) == kScalar {
				if sv, ok := args[last].(SliceV); ok {
					so := scalarSort(et)
					a := v.he.get(st, famElem(et), arr2Sort(so))
					tv := TupleV{}
					for k := 0; k < pk; k++ {
						tv.E = append(tv.E, Sc{Select(Select(a, sv.Arr, arrSort(so)), Add(sv.Off, IntLit(int64(k))), so)})
					}
					pargs = append(append([]Val(nil), args[:last]...), tv)
					suffix = fmt.Sprintf("#pack%d", pk)
				}
			}
		}
		res = v.pureAppNamed(callee, suffix, pargs, st, rt, reach)
	} else {
		v.withLocalFrame(fr, st, func() {
			for _, a := range args {
				v.escapeArg(st, a, x)
			}
			ms := v.callMods(x)
			v.applyMods(st, ms)
		})
		v.bumpAlloc(st, reach)
		res = v.freshTyped("ret."+callee.Name(), rt, st, reach)
		v.extraFormats = formatsOfContract(con)
		if x != nil {
			fm, top := v.callMayEmit(x)
			v.havocEmits(st, fm, top)
		} else {
			fm, top := v.w.mods.MayEmit(callee)
			v.havocEmits(st, fm, top)
		}
		v.extraFormats = nil
	}
	for _, c := range append(append([]*Clause{}, con.Names...), con.Ensures...) {
		// called()/errSeen()/lastResult()/lastArg() in a postcondition speak about the calls the *callee* makes; the
		// caller's observers say nothing about them, so such a clause is not assumed at a call site
		if v.w.mentionsCallObservers(c.Expr, con.PkgShort, 0) {
			continue
		}
		env := &specEnv{v: v, fr: sub, st: st, old: pre, result: res, resType: callee.Signature.Results(), pol: -1}
		// a clause that mentions the callee's locals cannot be stated at a call site: it is simply not assumed
		if t, ok := tryEvalBool(env, c.Expr); ok {
			v.sc.Assert(Implies(reach, t))
		}
	}
	if fr.top && len(con.Ensures) > 0 {
		// vacuity guard: the assumed postconditions must be consistent with what is known at the call
		v.addObl("CANARY", "false-after-"+calleeShort(callee), x.Pos(), reach, tTrue, nil, "notunsat")
	}
	return res
}

func calleeShort(f *ssa.Function) string { return f.Name() }

func (v *FnVC) applyIfaceContract(fr *frame, st *State, con *Contract, c *ssa.CallCommon, args []Val, x ssa.CallInstruction, rt types.Type) Val {
	reach := tTrue
	if fr.curBlock != nil {
		reach = fr.reach[fr.curBlock.Index]
	}
	if con.Pure {
		name := "ifn#" + con.Key
		var sorts []Sort
		var ts []Term
		for _, a := range args {
			for _, t := range flatten(v.scalarizeVal(a)) {
				ts = append(ts, t)
				sorts = append(sorts, t.Sort)
			}
		}
		rs := flatSorts(rt)
		out := make([]Term, len(rs))
		for i, so := range rs {
			fn := v.sc.DeclareFun(fmt.Sprintf("%s#%d", name, i), sorts, so)
			out[i] = app(so, fn, ts...)
		}
		val, _ := unflatten(rt, out)
		v.assumeTyped(val, rt, st, reach)
		return val
	}
	ms := v.callMods(x)
	v.applyMods(st, ms)
	v.bumpAlloc(st, reach)
	return v.freshTyped("ret."+c.Method.Name(), rt, st, reach)
}

// pureApp: result of a pure function as an uninterpreted function of its arguments
// (plus the current versions of heap families the caller may change and the callee may read).
func (v *FnVC) pureApp(callee *ssa.Function, args []Val, st *State, rt types.Type, guard Term) Val {
	return v.pureAppNamed(callee, "", args, st, rt, guard)
}

func (v *FnVC) pureAppNamed(callee *ssa.Function, suffix string, args []Val, st *State, rt types.Type, guard Term) Val {
	name := "fn#" + FuncKey(callee) + suffix
	var sorts []Sort
	var ts []Term
	for _, a := range args {
		for _, t := range flatten(v.scalarizeVal(a)) {
			ts = append(ts, t)
			sorts = append(sorts, t.Sort)
		}
	}
	for _, fam := range v.heapDeps(callee) {
		cur := v.he.get(st, fam.name, fam.sort)
		ts = append(ts, cur)
		sorts = append(sorts, fam.sort)
	}
	if kindOf(rt) == kTuple && under(rt).(*types.Tuple).Len() == 0 {
		return TupleV{}
	}
	rs := flatSorts(rt)
	out := make([]Term, len(rs))
	for i, so := range rs {
		fn := v.sc.DeclareFun(fmt.Sprintf("%s#%d", name, i), sorts, so)
		out[i] = v.sc.Define("pure", app(so, fn, ts...))
	}
	val, _ := unflatten(rt, out)
	v.assumeTyped(val, rt, st, guard)
	return val
}

type famSort struct {
	name string
	sort Sort
}

// heapDeps: heap families that both (a) the function under verification may modify and
// (b) the pure callee may read. Only these can make two applications differ.
func (v *FnVC) heapDeps(callee *ssa.Function) []famSort {
	if d, ok := v.depsCache[callee]; ok {
		return d
	}
	if v.depsCache == nil {
		v.depsCache = map[*ssa.Function][]famSort{}
	}
	if con := v.w.Contracts.ByFunc[callee]; con != nil && con.Stable {
		v.note("pure function " + FuncKey(callee) + " is declared stable: its result is assumed not to depend on heap changes made by the verified function")
		v.depsCache[callee] = nil
		return nil
	}
	mine := v.w.mods.Of(v.fn)
	reads := v.w.mods.Reads(callee)
	var out []famSort
	if mine.Top && reads.Top {
		v.note("pure function " + callee.Name() + " with unbounded read set in a function with unbounded write set: heap dependence of its result is not tracked")
	} else if mine.Top {
		for f, s := range reads.Fams {
			if !v.he.immutable(f) {
				out = append(out, famSort{f, s})
			}
		}
	} else {
		for f, s := range mine.Fams {
			// writes that only touch objects allocated by the function under verification cannot change what a
			// pure callee reads from pre-existing objects (objects handed to the callee are assumed complete
			// before the call and unmodified between two related calls)
			if !mine.NonFresh[f] {
				continue
			}
			if reads.Top {
				out = append(out, famSort{f, s})
			} else if _, ok := reads.Fams[f]; ok {
				out = append(out, famSort{f, s})
			}
		}
	}
	if con := v.w.Contracts.ByFunc[callee]; con != nil && con.ReadsModel {
		var keep []famSort
		for _, fs := range out {
			if strings.Contains(fs.name, "#dsl.") || strings.Contains(fs.name, "#*dsl.") || strings.Contains(fs.name, "]dsl.") {
				keep = append(keep, fs)
			}
		}
		out = keep
	}
	sortFamSorts(out)
	v.depsCache[callee] = out
	return out
}

func sortFamSorts(xs []famSort) {
	for i := 1; i < len(xs); i++ {
		for j := i; j > 0 && xs[j].name < xs[j-1].name; j-- {
			xs[j], xs[j-1] = xs[j-1], xs[j]
		}
	}
}

// ---------- builtins ----------

func (v *FnVC) builtin(fr *frame, st *State, x ssa.CallInstruction, bi *ssa.Builtin) Val {
	c := x.Common()
	reach := fr.reach[fr.curBlock.Index]
	arg := func(i int) Val { return v.value(fr, c.Args[i]) }
	switch bi.Name() {
	case "len":
		switch a := arg(0).(type) {
		case SliceV:
			return Sc{a.Len}
		case Sc:
			if a.T.Sort == SStr {
				return Sc{app(SInt, "str.len", a.T)}
			}
			if mt, ok := under(c.Args[0].Type()).(*types.Map); ok {
				l := v.sc.Define("maplen", v.mapLen(st, mt, a.T))
				v.sc.Assert(Implies(reach, Le(tZero, l)))
				return Sc{l}
			}
			if pt, ok := under(c.Args[0].Type()).(*types.Pointer); ok {
				if at, ok := under(pt.Elem()).(*types.Array); ok {
					return Sc{IntLit(at.Len())}
				}
			}
		}
		panic(unsupported("len of %T", arg(0)))
	case "cap":
		if a, ok := arg(0).(SliceV); ok {
			r := v.sc.Fresh("cap", SInt)
			v.sc.Assert(Le(a.Len, r))
			return Sc{r}
		}
		panic(unsupported("cap"))
	case "append":
		s, ok := arg(0).(SliceV)
		if !ok {
			panic(unsupported("append to %T", arg(0)))
		}
		et := under(c.Args[0].Type()).(*types.Slice).Elem()
		if len(c.Args) == 1 {
			return s
		}
		// second argument is a slice (varargs pack or s2...) or a string (append([]byte, string...))
		add, ok := arg(1).(SliceV)
		if !ok {
			r := v.sc.Fresh("append", SInt)
			v.sc.Assert(Lt(st.allocPtr, r))
			st.allocPtr = r
			ln := v.sc.Fresh("appendlen", SInt)
			v.sc.Assert(Le(s.Len, ln))
			return SliceV{r, tZero, ln}
		}
		v.note("append is modelled as always reallocating (no aliasing with the old backing array)")
		r := v.sc.Fresh("append", SInt)
		v.sc.Assert(Lt(st.allocPtr, r))
		v.sc.Assert(Lt(tZero, r))
		st.allocPtr = r
		newLen := v.sc.Define("applen", Add(s.Len, add.Len))
		res := SliceV{r, s.Off, newLen}
		// contents: only the single-element case is tracked precisely
		if pk := v.packLen(c.Args[1]); pk >= 0 && kindOf(et) != kStruct && kindOf(et) != kArray {
			var sorts []Sort
			if kindOf(et) == kScalar || kindOf(et) == kFunc {
				sorts = []Sort{scalarSort(et)}
			} else {
				sorts = flatSorts(et)
			}
			for i, suf := range compSuffixes(et) {
				so := sorts[i]
				fam := famElem(et) + suf
				a := v.he.get(st, fam, arr2Sort(so))
				inner := Select(a, s.Arr, arrSort(so))
				for k := 0; k < pk; k++ {
					src := Select(Select(a, add.Arr, arrSort(so)), Add(add.Off, IntLit(int64(k))), so)
					inner = Store(inner, Add(Add(s.Off, s.Len), IntLit(int64(k))), src)
				}
				v.he.set(st, fam, Store(a, r, inner))
			}
		} else if kindOf(et) == kStruct || kindOf(et) == kArray {
			// struct elements live at esub(arr, idx): copy is not expressible without quantifiers -> contents unknown
			tmp := map[string]Sort{}
			elemStoreFams(et, tmp)
			for f, so := range tmp {
				v.he.havocFam(st, f, so)
			}
		} else {
			// append(s, t...) with unknown length: contents of the result unknown
			var sorts []Sort
			if kindOf(et) == kScalar || kindOf(et) == kFunc {
				sorts = []Sort{scalarSort(et)}
			} else {
				sorts = flatSorts(et)
			}
			for i, suf := range compSuffixes(et) {
				so := sorts[i]
				fam := famElem(et) + suf
				a := v.he.get(st, fam, arr2Sort(so))
				fresh := v.sc.Fresh("appcontents", arrSort(so))
				// the prefix [off, off+len) is preserved
				k := v.sc.Fresh("k", SInt)
				_ = k
				v.he.set(st, fam, Store(a, r, fresh))
				if so != SFlt {
					q := fmt.Sprintf("(forall ((k Int)) (=> (and (<= %s k) (< k %s)) (= (select %s k) (select %s k))))",
						s.Off.S, Add(s.Off, s.Len).S, fresh.S, Select(a, s.Arr, arrSort(so)).S)
					v.sc.Assert(Implies(reach, Term{q, SBool}))
					// the appended elements follow, in order
					q2 := fmt.Sprintf("(forall ((k Int)) (=> (and (<= 0 k) (< k %s)) (= (select %s (+ %s k)) (select %s (+ %s k)))))",
						add.Len.S, fresh.S, Add(s.Off, s.Len).S, Select(a, add.Arr, arrSort(so)).S, add.Off.S)
					v.sc.Assert(Implies(reach, Term{q2, SBool}))
				}
			}
		}
		return res
	case "copy":
		dst, ok := arg(0).(SliceV)
		if ok {
			et := under(c.Args[0].Type()).(*types.Slice).Elem()
			tmp := map[string]Sort{}
			elemStoreFams(et, tmp)
			for f, so := range tmp {
				v.he.havocFam(st, f, so)
			}
			_ = dst
		}
		return v.freshTyped("copy", types.Typ[types.Int], st, reach)
	case "delete":
		mt := under(c.Args[0].Type()).(*types.Map)
		m := arg(0).(Sc).T
		key, ok := v.mapKeyTerm(arg(1), mt.Key())
		if !ok {
			tmp := map[string]Sort{}
			mapFams(mt, tmp)
			for f, s := range tmp {
				v.he.havocFam(st, f, s)
			}
			return TupleV{}
		}
		ks := mapKeySort(mt.Key())
		dsort := Sort("(Array Int (Array " + string(ks) + " Bool))")
		d := v.he.get(st, famMap("MD", mt), dsort)
		dom := Select(d, m, Sort("(Array "+string(ks)+" Bool)"))
		was := v.sc.Define("wasin", And(Not(Eq(m, tZero)), Select(dom, key, SBool)))
		v.he.set(st, famMap("MD", mt), Ite(Eq(m, tZero), d, Store(d, m, Store(dom, key, tFalse))))
		l := v.he.get(st, famMap("ML", mt), arrSort(SInt))
		v.he.set(st, famMap("ML", mt), Store(l, m, Ite(was, Sub(Select(l, m, SInt), IntLit(1)), Select(l, m, SInt))))
		return TupleV{}
	case "panic":
		if fr.top {
			v.addObl("SAFE-panic", v.exprTextFor("panic", x), x.Pos(), reach, tFalse, nil, "")
		}
		v.sc.Assert(Not(reach))
		return TupleV{}
	case "print", "println":
		return TupleV{}
	case "min", "max":
		a, b := arg(0).(Sc).T, arg(1).(Sc).T
		if a.Sort == SInt && len(c.Args) == 2 {
			if bi.Name() == "min" {
				return Sc{Ite(Le(a, b), a, b)}
			}
			return Sc{Ite(Le(a, b), b, a)}
		}
	}
	panic(unsupported("builtin %s", bi.Name()))
}

// packLen: number of elements when the value is a varargs pack `slice t[:]` of a new [k]T, else -1.
func (v *FnVC) packLen(x ssa.Value) int {
	sl, ok := x.(*ssa.Slice)
	if !ok || sl.Low != nil || sl.High != nil {
		return -1
	}
	al, ok := sl.X.(*ssa.Alloc)
	if !ok {
		return -1
	}
	at, ok := under(elemTypeOfAddr(al)).(*types.Array)
	if !ok || at.Len() > 8 {
		return -1
	}
	return int(at.Len())
}

func tryEvalBool(env *specEnv, e SExpr) (t Term, ok bool) {
	mark := len(env.v.sc.lines)
	defer func() {
		if r := recover(); r != nil {
			if _, isU := r.(unsupportedErr); isU {
				env.v.sc.rollbackTo(mark)
				ok = false
				return
			}
			panic(r)
		}
	}()
	return env.evalBool(e), true
}

func isAncestor(anc, f *ssa.Function) bool {
	for p := f.Parent(); p != nil; p = p.Parent() {
		if p == anc {
			return true
		}
	}
	return false
}

// reaches: b is reachable from a in the call graph (static and CHA edges)
func (w *World) reaches(a, b *ssa.Function) bool {
	if w.reachMemo == nil {
		w.reachMemo = map[[2]*ssa.Function]bool{}
	}
	k := [2]*ssa.Function{a, b}
	if r, ok := w.reachMemo[k]; ok {
		return r
	}
	seen := map[*ssa.Function]bool{a: true}
	work := []*ssa.Function{a}
	res := false
	for len(work) > 0 && !res {
		f := work[len(work)-1]
		work = work[:len(work)-1]
		n := w.CG.Nodes[f]
		if n == nil {
			continue
		}
		for _, e := range n.Out {
			g := e.Callee.Func
			if g == b {
				res = true
				break
			}
			if !seen[g] {
				seen[g] = true
				work = append(work, g)
			}
		}
	}
	w.reachMemo[k] = res
	return res
}

func (w *World) mentionsCallObservers(e SExpr, pkgShort string, depth int) bool {
	if e == nil || depth > 6 {
		return false
	}
	any := func(xs ...SExpr) bool {
		for _, x := range xs {
			if x != nil && w.mentionsCallObservers(x, pkgShort, depth) {
				return true
			}
		}
		return false
	}
	switch x := e.(type) {
	case SCall:
		if id, ok := x.Fn.(SIdent); ok {
			switch id.Name {
			case "called", "errSeen", "lastResult", "lastArg", "calls":
				return true
			}
			for _, key := range []string{pkgShort + "." + id.Name, id.Name} {
				if sf := w.Contracts.SpecFuncs[key]; sf != nil && sf.Body != nil {
					if w.mentionsCallObservers(sf.Body, pkgShort, depth+1) {
						return true
					}
				}
			}
		}
		if any(x.Fn) {
			return true
		}
		return any(x.Args...)
	case SBin:
		return any(x.L, x.R)
	case SUn:
		return any(x.X)
	case SSel:
		return any(x.X)
	case SIdx:
		return any(x.X, x.I)
	case SQuant:
		return any(x.Lo, x.Hi, x.Body)
	case SOld:
		return any(x.X)
	case SIte:
		return any(x.C, x.A, x.B)
	case SAssert:
		return any(x.X)
	case STypeOf:
		return any(x.X)
	}
	return false
}

// takesFunc: the function has a parameter of function type and is not itself recursive through a static call
func takesFunc(f *ssa.Function) bool {
	has := false
	for _, p := range f.Params {
		if _, ok := under(p.Type()).(*types.Signature); ok {
			has = true
		}
	}
	if !has {
		return false
	}
	for _, b := range f.Blocks {
		for _, ins := range b.Instrs {
			if ci, ok := ins.(ssa.CallInstruction); ok && ci.Common().StaticCallee() == f {
				return false
			}
		}
	}
	return true
}
