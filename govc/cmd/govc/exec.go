package main

import (
	"fmt"
	"go/token"
	"go/types"
	"math/big"
	"strings"

	"golang.org/x/tools/go/ssa"
)

type bigInt = big.Int

func (v *FnVC) exec(fr *frame, st *State, ins ssa.Instruction) {
	reach := fr.reach[fr.curBlock.Index]
	b := fr.curBlock
	set := func(val Val) {
		fr.vals[ins.(ssa.Value)] = val
	}
	switch x := ins.(type) {
	case *ssa.DebugRef:
	case *ssa.Alloc:
		et := elemTypeOfAddr(x)
		r := v.sc.Fresh("alloc."+x.Name(), SInt)
		v.freshRefs[r.S] = true
		v.sc.Assert(Lt(st.allocPtr, r))
		v.sc.Assert(Lt(tZero, r))
		st.allocPtr = r
		v.zeroInit(st, r, et)
		set(Sc{r})
	case *ssa.FieldAddr:
		p := v.value(fr, x.X)
		ps, ok := p.(Sc)
		if !ok {
			panic(unsupported("FieldAddr on %T", p))
		}
		v.safe(fr, "nil", ins, Not(Eq(ps.T, tZero)))
		set(v.fieldAddr(ps.T, elemTypeOfAddr(x.X), x.Field))
	case *ssa.Field:
		sv, ok := v.value(fr, x.X).(StructV)
		if !ok {
			panic(unsupported("Field on non-struct value"))
		}
		set(sv.F[x.Field])
	case *ssa.IndexAddr:
		idx := v.value(fr, x.Index).(Sc).T
		et := elemTypeOfAddr(x)
		var arr, off, ln Term
		switch xv := v.value(fr, x.X).(type) {
		case SliceV:
			arr, off, ln = xv.Arr, xv.Off, xv.Len
		case Sc: // pointer to array
			at := under(elemTypeOfAddr(x.X)).(*types.Array)
			v.safe(fr, "nil", ins, Not(Eq(xv.T, tZero)))
			arr, off, ln = xv.T, tZero, IntLit(at.Len())
		default:
			panic(unsupported("IndexAddr on %T", xv))
		}
		v.safe(fr, "index", ins, And(Le(tZero, idx), Lt(idx, ln)))
		v.noteIndex(idx)
		abs := idx
		if off.S != "0" {
			abs = Add(off, idx)
		}
		switch kindOf(et) {
		case kStruct, kArray:
			set(Sc{v.elemAddr(et, arr, abs)})
		default:
			set(PtrV{Loc{Kind: locElem, Base: arr, Idx: abs, T: et}})
		}
	case *ssa.Index:
		idx := v.value(fr, x.Index).(Sc).T
		switch xv := v.value(fr, x.X).(type) {
		case Sc:
			if xv.T.Sort != SStr {
				panic(unsupported("Index on non-string scalar"))
			}
			v.safe(fr, "index", ins, And(Le(tZero, idx), Lt(idx, app(SInt, "str.len", xv.T))))
			v.note("strings are sequences of code points: byte indexing exact for ASCII only")
			set(Sc{app(SInt, "str.to_code", app(SStr, "str.at", xv.T, idx))})
		default:
			panic(unsupported("Index on array value"))
		}
	case *ssa.Lookup:
		set(v.lookup(fr, st, x, reach))
	case *ssa.MapUpdate:
		v.mapUpdate(fr, st, x)
	case *ssa.MakeMap:
		mt := under(x.Type()).(*types.Map)
		r := v.sc.Fresh("map."+x.Name(), SInt)
		v.sc.Assert(Lt(st.allocPtr, r))
		v.sc.Assert(Lt(tZero, r))
		st.allocPtr = r
		ks := mapKeySort(mt.Key())
		dsort := Sort("(Array Int (Array " + string(ks) + " Bool))")
		d := v.he.get(st, famMap("MD", mt), dsort)
		empty := Term{"((as const (Array " + string(ks) + " Bool)) false)", Sort("(Array " + string(ks) + " Bool)")}
		v.he.set(st, famMap("MD", mt), Store(d, r, empty))
		l := v.he.get(st, famMap("ML", mt), arrSort(SInt))
		v.he.set(st, famMap("ML", mt), Store(l, r, tZero))
		set(Sc{r})
	case *ssa.MakeSlice:
		ln := v.value(fr, x.Len).(Sc).T
		v.safe(fr, "make", ins, And(Le(tZero, ln), Le(ln, IntLit(1<<24))))
		r := v.sc.Fresh("mkslice."+x.Name(), SInt)
		v.sc.Assert(Lt(st.allocPtr, r))
		v.sc.Assert(Lt(tZero, r))
		st.allocPtr = r
		et := under(x.Type()).(*types.Slice).Elem()
		v.zeroElems(st, r, et)
		set(SliceV{r, tZero, ln})
	case *ssa.Slice:
		set(v.sliceOp(fr, st, x))
	case *ssa.BinOp:
		set(v.binop(fr, x))
	case *ssa.UnOp:
		set(v.unop(fr, st, x))
	case *ssa.Phi:
		// handled at block entry
	case *ssa.Call:
		res := v.call(fr, st, x)
		set(res)
	case *ssa.ChangeType:
		set(v.value(fr, x.X))
	case *ssa.Convert:
		set(v.convert(fr, x))
	case *ssa.ChangeInterface:
		set(v.value(fr, x.X))
	case *ssa.MakeInterface:
		if _, isPtr := under(x.X.Type()).(*types.Pointer); isPtr {
			if ps, ok := v.scalarizeVal(v.value(fr, x.X)).(Sc); ok {
				cond := Not(Eq(ps.T, tZero))
				// Go idiom `return f(x)` with f returning (*T, error): the value only matters when err == nil
				if errv := returnedWithError(x); errv != nil {
					var evv Val
					if have, ok := fr.vals[errv]; ok {
						evv = have
					} else if ex, ok := errv.(*ssa.Extract); ok {
						if tv, ok := fr.vals[ex.Tuple].(TupleV); ok {
							evv = tv.E[ex.Index]
						}
					} else if _, isConst := errv.(*ssa.Const); isConst {
						evv = v.value(fr, errv)
					}
					if ev, ok := evv.(IfaceV); ok {
						cond = Implies(Eq(ev.Tag, tZero), cond)
					}
				}
				v.safe(fr, "typednil", x, cond)
			}
		}
		set(v.makeIface(v.value(fr, x.X), x.X.Type()))
	case *ssa.TypeAssert:
		set(v.typeAssert(fr, x))
	case *ssa.Extract:
		tv, ok := v.value(fr, x.Tuple).(TupleV)
		if !ok {
			panic(unsupported("Extract from %T", v.value(fr, x.Tuple)))
		}
		set(tv.E[x.Index])
	case *ssa.MakeClosure:
		f := FuncV{Fn: x.Fn.(*ssa.Function)}
		for _, bnd := range x.Bindings {
			f.Bind = append(f.Bind, v.value(fr, bnd))
		}
		set(f)
	case *ssa.Range:
		set(Sc{v.sc.Fresh("rangeiter", SInt)})
		fr.rangeOf = ensureMap(fr.rangeOf)
		fr.rangeOf[x] = v.value(fr, x.X)
	case *ssa.Next:
		set(v.next(fr, st, x, reach))
	case *ssa.Store:
		et := elemTypeOfAddr(x.Addr)
		p := v.value(fr, x.Addr)
		if ps, ok := p.(Sc); ok {
			v.safe(fr, "nil", ins, Not(Eq(ps.T, tZero)))
		}
		// declared model invariant "slices of this element type never hold nil": guaranteed at every element store
		if pv, ok := p.(PtrV); ok && pv.L.Kind == locElem && v.w.Contracts.ElemsNonNil[typeKey(types.Unalias(et))] {
			switch sv := v.scalarizeVal(v.value(fr, x.Val)).(type) {
			case Sc:
				v.safe(fr, "elemnil", ins, Not(Eq(sv.T, tZero)))
			case IfaceV:
				v.safe(fr, "elemnil", ins, Not(Eq(sv.Tag, tZero)))
			}
		}
		v.storeThrough(st, p, et, v.value(fr, x.Val))
		if al, isAl := x.Addr.(*ssa.Alloc); isAl {
			if _, isSig := under(et).(*types.Signature); isSig && v.w.singleStoreCell(al) {
				// a function value kept in a cell that is written once (a parameter that closures capture): loads give
				// back the value itself, so that a call through it is recognised as a call through the parameter
				if ps, ok := p.(Sc); ok {
					if v.constCells == nil {
						v.constCells = map[string]Val{}
					}
					v.constCells[ps.T.S] = v.value(fr, x.Val)
				}
			}
		}
	case *ssa.If:
		c := v.value(fr, x.Cond).(Sc).T
		c = v.sc.Define("cond", c)
		tb, fb := b.Succs[0], b.Succs[1]
		v.addEdge(fr, b, tb, And(reach, c))
		v.addEdge(fr, b, fb, And(reach, Not(c)))
	case *ssa.Jump:
		v.addEdge(fr, b, b.Succs[0], reach)
	case *ssa.Return:
		var rv Val
		switch len(x.Results) {
		case 0:
			rv = TupleV{}
		case 1:
			rv = v.value(fr, x.Results[0])
		default:
			tv := TupleV{}
			for _, r := range x.Results {
				tv.E = append(tv.E, v.value(fr, r))
			}
			rv = tv
		}
		fr.rets = append(fr.rets, retInfo{reach, rv, st.clone(), b.Index})
	case *ssa.Panic:
		if fr.top {
			txt := v.exprTextFor("panic", ins)
			v.addObl("SAFE-panic", txt, ins.Pos(), reach, tFalse, nil, "")
		}
		v.sc.Assert(Not(reach))
	case *ssa.RunDefers:
		// the deferred calls that were registered unconditionally run here, last registered first
		for i := len(fr.defers) - 1; i >= 0; i-- {
			v.call(fr, st, fr.defers[i])
		}
	case *ssa.Defer:
		if deferRunsAtEveryExit(x) {
			// registered exactly once before any exit: the call happens at each RunDefers (its operands are SSA
			// values, fixed at registration; what it reads through pointers and captured variables is read then)
			fr.defers = append(fr.defers, x)
			break
		}
		v.note("deferred calls are not modelled")
		if fr.top {
			// deferred library calls (Close, Chdir) do not touch module-visible heap; anything else deferred in a
			// function with postconditions is out of subset
			cal := x.Call.StaticCallee()
			harmless := cal != nil && !v.w.InModule(cal) && !externalIsTop(cal)
			if x.Call.IsInvoke() && x.Call.Method.Name() == "Close" {
				harmless = true
			}
			if !harmless && v.con != nil && len(v.con.Ensures) > 0 {
				panic(unsupported("defer in function with postconditions"))
			}
		}
	case *ssa.Go, *ssa.Send, *ssa.Select:
		panic(unsupported("concurrency instruction %T", ins))
	default:
		panic(unsupported("instruction %T", ins))
	}
}

func ensureMap(m map[*ssa.Range]Val) map[*ssa.Range]Val {
	if m == nil {
		return map[*ssa.Range]Val{}
	}
	return m
}

func (v *FnVC) addEdge(fr *frame, from, to *ssa.BasicBlock, cond Term) {
	k := [2]int{from.Index, to.Index}
	if old, ok := fr.edge[k]; ok {
		fr.edge[k] = Or(old, cond)
	} else {
		fr.edge[k] = cond
	}
}

func (v *FnVC) zeroInit(st *State, r Term, et types.Type) {
	switch kindOf(et) {
	case kStruct:
		sv := zeroVal(et, v.sc)
		v.storeStruct(st, r, et, sv)
	case kArray:
		v.zeroElems(st, r, under(et).(*types.Array).Elem())
	default:
		v.storeLocNoAlias(st, Loc{Kind: locBox, Base: r, T: et}, zeroVal(et, v.sc))
	}
}

// storeLocNoAlias: store to a freshly allocated box (cannot alias escaped addresses).
func (v *FnVC) storeLocNoAlias(st *State, l Loc, val Val) {
	prefix, _ := v.locFams(l)
	t := l.T
	var sorts []Sort
	if kindOf(t) == kScalar || kindOf(t) == kFunc {
		sorts = []Sort{scalarSort(t)}
	} else {
		sorts = flatSorts(t)
	}
	sufs := compSuffixes(t)
	ts := flatten(v.scalarizeVal(val))
	for i, so := range sorts {
		fam := prefix + sufs[i]
		a := v.he.get(st, fam, arrSort(so))
		v.he.set(st, fam, Store(a, l.Base, ts[i]))
	}
}

func (v *FnVC) zeroElems(st *State, arr Term, et types.Type) {
	switch kindOf(et) {
	case kStruct, kArray:
		return // left unconstrained (over-approximation)
	}
	var sorts []Sort
	if kindOf(et) == kScalar || kindOf(et) == kFunc {
		sorts = []Sort{scalarSort(et)}
	} else {
		sorts = flatSorts(et)
	}
	sufs := compSuffixes(et)
	for i, so := range sorts {
		fam := famElem(et) + sufs[i]
		a := v.he.get(st, fam, arr2Sort(so))
		z := Term{"((as const " + string(arrSort(so)) + ") " + zeroTerm(so, v.sc).S + ")", arrSort(so)}
		v.he.set(st, fam, Store(a, arr, z))
	}
}

// ---------- maps ----------

func (v *FnVC) mapKeyTerm(k Val, kt types.Type) (Term, bool) {
	switch x := k.(type) {
	case Sc:
		if x.T.Sort == SFlt {
			return Term{}, false
		}
		return x.T, true
	case IfaceV:
		// digest of (tag, ref): injective pairing through an uninterpreted function with inverses
		fn := v.sc.DeclareFun("ifacekey", []Sort{SInt, SInt}, SInt)
		t := app(SInt, fn, x.Tag, x.Ref)
		k1 := v.sc.DeclareFun("ifacekey.tag", []Sort{SInt}, SInt)
		k2 := v.sc.DeclareFun("ifacekey.ref", []Sort{SInt}, SInt)
		key := "ifk:" + t.S
		if !v.ufs[key] {
			v.ufs[key] = true
			v.sc.Assert(And(Eq(app(SInt, k1, t), x.Tag), Eq(app(SInt, k2, t), x.Ref)))
		}
		return t, true
	}
	return Term{}, false
}

func (v *FnVC) mapParts(st *State, mt *types.Map, m Term) (dom Term, ks Sort) {
	ks = mapKeySort(mt.Key())
	dsort := Sort("(Array Int (Array " + string(ks) + " Bool))")
	d := v.he.get(st, famMap("MD", mt), dsort)
	return Select(d, m, Sort("(Array "+string(ks)+" Bool)")), ks
}

func (v *FnVC) mapValueSupported(mt *types.Map) bool {
	switch kindOf(mt.Elem()) {
	case kStruct:
		return flatScalarStruct(mt.Elem())
	case kArray, kTuple:
		return false
	}
	return true
}

// flatScalarStruct: a struct whose fields are all scalars (map values of this shape are kept per field)
func flatScalarStruct(t types.Type) bool {
	st, ok := under(t).(*types.Struct)
	if !ok || st.NumFields() == 0 {
		return false
	}
	for i := 0; i < st.NumFields(); i++ {
		if kindOf(st.Field(i).Type()) != kScalar {
			return false
		}
	}
	return true
}

// mapCompSuffixes: the component families of a map value of type t
func mapCompSuffixes(t types.Type) []string {
	if kindOf(t) == kStruct && flatScalarStruct(t) {
		st := under(t).(*types.Struct)
		out := make([]string, st.NumFields())
		for i := range out {
			out[i] = "." + st.Field(i).Name()
		}
		return out
	}
	return compSuffixes(t)
}

func (v *FnVC) mapRead(st *State, mt *types.Map, m, key Term, guard Term) Val {
	ks := mapKeySort(mt.Key())
	et := mt.Elem()
	var sorts []Sort
	if kindOf(et) == kScalar || kindOf(et) == kFunc {
		sorts = []Sort{scalarSort(et)}
	} else {
		sorts = flatSorts(et)
	}
	sufs := mapCompSuffixes(et)
	ts := make([]Term, len(sorts))
	for i, so := range sorts {
		inner := Sort("(Array " + string(ks) + " " + string(so) + ")")
		a := v.he.get(st, famMap("MV", mt)+sufs[i], Sort("(Array Int "+string(inner)+")"))
		ts[i] = v.sc.Define("mv", Select(Select(a, m, inner), key, so))
	}
	val, _ := unflatten(et, ts)
	return val
}

func (v *FnVC) lookup(fr *frame, st *State, x *ssa.Lookup, reach Term) Val {
	mt, isMap := under(x.X.Type()).(*types.Map)
	if !isMap {
		// string index
		s := v.value(fr, x.X).(Sc).T
		idx := v.value(fr, x.Index).(Sc).T
		v.safe(fr, "index", x, And(Le(tZero, idx), Lt(idx, app(SInt, "str.len", s))))
		v.note("strings are sequences of code points: byte indexing exact for ASCII only")
		return Sc{app(SInt, "str.to_code", app(SStr, "str.at", s, idx))}
	}
	m := v.value(fr, x.X).(Sc).T
	key, ok := v.mapKeyTerm(v.value(fr, x.Index), mt.Key())
	var val Val
	var in Term
	if !ok {
		val = v.freshTyped("lookup", mt.Elem(), st, reach)
		in = v.sc.Fresh("lookup.ok", SBool)
	} else if !v.mapValueSupported(mt) {
		dom, _ := v.mapParts(st, mt, m)
		in = v.sc.Define("indom", And(Not(Eq(m, tZero)), Select(dom, key, SBool)))
		val = valIte(in, v.freshTyped("lookup", mt.Elem(), st, reach), zeroVal(mt.Elem(), v.sc), mt.Elem())
	} else {
		dom, _ := v.mapParts(st, mt, m)
		in = v.sc.Define("indom", And(Not(Eq(m, tZero)), Select(dom, key, SBool)))
		raw := v.mapRead(st, mt, m, key, reach)
		v.assumeTyped(raw, mt.Elem(), st, And(reach, in))
		val = valIte(in, raw, zeroVal(mt.Elem(), v.sc), mt.Elem())
	}
	if x.CommaOk {
		return TupleV{[]Val{val, Sc{in}}}
	}
	return val
}

func (v *FnVC) mapUpdate(fr *frame, st *State, x *ssa.MapUpdate) {
	mt := under(x.Map.Type()).(*types.Map)
	m := v.value(fr, x.Map).(Sc).T
	v.safe(fr, "nilmap", x, Not(Eq(m, tZero)))
	key, ok := v.mapKeyTerm(v.value(fr, x.Key), mt.Key())
	if !ok {
		tmp := map[string]Sort{}
		mapFams(mt, tmp)
		for f, s := range tmp {
			v.he.havocFam(st, f, s)
		}
		return
	}
	if !v.mapValueSupported(mt) {
		// values of this shape are not modelled: the key set and the length still are
		tmp := map[string]Sort{}
		mapFams(mt, tmp)
		for f, s := range tmp {
			if strings.HasPrefix(f, famMap("MV", mt)) {
				v.he.havocFam(st, f, s)
			}
		}
	}
	ks := mapKeySort(mt.Key())
	dsort := Sort("(Array Int (Array " + string(ks) + " Bool))")
	d := v.he.get(st, famMap("MD", mt), dsort)
	dom := Select(d, m, Sort("(Array "+string(ks)+" Bool)"))
	was := v.sc.Define("wasin", Select(dom, key, SBool))
	v.he.set(st, famMap("MD", mt), Store(d, m, Store(dom, key, tTrue)))
	l := v.he.get(st, famMap("ML", mt), arrSort(SInt))
	v.he.set(st, famMap("ML", mt), Store(l, m, Ite(was, Select(l, m, SInt), Add(Select(l, m, SInt), IntLit(1)))))
	if !v.mapValueSupported(mt) {
		return
	}
	et := mt.Elem()
	var sorts []Sort
	if kindOf(et) == kScalar || kindOf(et) == kFunc {
		sorts = []Sort{scalarSort(et)}
	} else {
		sorts = flatSorts(et)
	}
	sufs := mapCompSuffixes(et)
	ts := flatten(v.scalarizeVal(v.value(fr, x.Value)))
	for i, so := range sorts {
		inner := Sort("(Array " + string(ks) + " " + string(so) + ")")
		fam := famMap("MV", mt) + sufs[i]
		a := v.he.get(st, fam, Sort("(Array Int "+string(inner)+")"))
		v.he.set(st, fam, Store(a, m, Store(Select(a, m, inner), key, ts[i])))
	}
}

func (v *FnVC) mapLen(st *State, mt *types.Map, m Term) Term {
	l := v.he.get(st, famMap("ML", mt), arrSort(SInt))
	return Ite(Eq(m, tZero), tZero, Select(l, m, SInt))
}

func (v *FnVC) next(fr *frame, st *State, x *ssa.Next, reach Term) Val {
	ok := v.sc.Fresh("next.ok", SBool)
	rng := x.Iter.(*ssa.Range)
	tu := x.Type().(*types.Tuple)
	if x.IsString {
		k := v.freshTyped("next.k", tu.At(1).Type(), st, reach)
		val := v.freshTyped("next.v", tu.At(2).Type(), st, reach)
		s := fr.rangeOf[rng].(Sc).T
		if ks, isSc := k.(Sc); isSc {
			v.sc.Assert(Implies(And(reach, ok), And(Le(tZero, ks.T), Lt(ks.T, app(SInt, "str.len", s)))))
		}
		return TupleV{[]Val{Sc{ok}, k, val}}
	}
	mt := under(rng.X.Type()).(*types.Map)
	m := fr.rangeOf[rng].(Sc).T
	var k, val Val
	k = v.freshTyped("next.k", mt.Key(), st, reach)
	keyT, kok := v.mapKeyTerm(k, mt.Key())
	if kok && v.mapValueSupported(mt) {
		dom, _ := v.mapParts(st, mt, m)
		v.sc.Assert(Implies(And(reach, ok), And(Not(Eq(m, tZero)), Select(dom, keyT, SBool))))
		val = v.mapRead(st, mt, m, keyT, reach)
		v.assumeTyped(val, mt.Elem(), st, And(reach, ok))
	} else if kok {
		dom, _ := v.mapParts(st, mt, m)
		v.sc.Assert(Implies(And(reach, ok), And(Not(Eq(m, tZero)), Select(dom, keyT, SBool))))
		val = v.freshTyped("next.v", mt.Elem(), st, reach)
	} else {
		val = v.freshTyped("next.v", mt.Elem(), st, reach)
	}
	if b, isB := tu.At(2).Type().(*types.Basic); isB && b.Kind() == types.Invalid {
		val = Sc{tZero}
	}
	return TupleV{[]Val{Sc{ok}, k, val}}
}

// ---------- slices ----------

func (v *FnVC) sliceOp(fr *frame, st *State, x *ssa.Slice) Val {
	var lo, hi Term
	lo = tZero
	if x.Low != nil {
		lo = v.value(fr, x.Low).(Sc).T
	}
	switch xv := v.value(fr, x.X).(type) {
	case SliceV:
		hi = xv.Len
		if x.High != nil {
			hi = v.value(fr, x.High).(Sc).T
		}
		if x.Low != nil || x.High != nil {
			// capacity is not tracked: hi <= len is sufficient (stronger than Go's hi <= cap)
			v.safe(fr, "index", x, And(Le(tZero, lo), Le(lo, hi), Le(hi, xv.Len)))
		}
		return SliceV{xv.Arr, v.sc.Define("off", Add(xv.Off, lo)), v.sc.Define("len", Sub(hi, lo))}
	case Sc:
		if xv.T.Sort == SStr {
			ln := app(SInt, "str.len", xv.T)
			hi = ln
			if x.High != nil {
				hi = v.value(fr, x.High).(Sc).T
			}
			v.safe(fr, "index", x, And(Le(tZero, lo), Le(lo, hi), Le(hi, ln)))
			return Sc{app(SStr, "str.substr", xv.T, lo, Sub(hi, lo))}
		}
		// pointer to array
		at := under(elemTypeOfAddr(x.X)).(*types.Array)
		v.safe(fr, "nil", x, Not(Eq(xv.T, tZero)))
		hi = IntLit(at.Len())
		if x.High != nil {
			hi = v.value(fr, x.High).(Sc).T
		}
		if x.Low != nil || x.High != nil {
			v.safe(fr, "index", x, And(Le(tZero, lo), Le(lo, hi), Le(hi, IntLit(at.Len()))))
		}
		return SliceV{xv.T, lo, v.sc.Define("len", Sub(hi, lo))}
	}
	panic(unsupported("Slice of %T", v.value(fr, x.X)))
}

// ---------- operators ----------

func (v *FnVC) binop(fr *frame, x *ssa.BinOp) Val {
	a, b := v.value(fr, x.X), v.value(fr, x.Y)
	switch x.Op {
	case token.EQL, token.NEQ:
		e := v.equal(a, b, x.X.Type(), x.Y.Type())
		if x.Op == token.NEQ {
			e = Not(e)
		}
		return Sc{e}
	}
	as, aok := a.(Sc)
	bs, bok := b.(Sc)
	if !aok || !bok {
		panic(unsupported("binop %s on %T", x.Op, a))
	}
	s := as.T.Sort
	switch s {
	case SBool:
		switch x.Op {
		case token.AND, token.LAND:
			return Sc{And(as.T, bs.T)}
		case token.OR, token.LOR:
			return Sc{Or(as.T, bs.T)}
		case token.XOR:
			return Sc{Not(Eq(as.T, bs.T))}
		}
	case SStr:
		switch x.Op {
		case token.ADD:
			return Sc{app(SStr, "str.++", as.T, bs.T)}
		case token.LSS:
			return Sc{app(SBool, "str.<", as.T, bs.T)}
		case token.LEQ:
			return Sc{app(SBool, "str.<=", as.T, bs.T)}
		case token.GTR:
			return Sc{app(SBool, "str.<", bs.T, as.T)}
		case token.GEQ:
			return Sc{app(SBool, "str.<=", bs.T, as.T)}
		}
	case SFlt:
		switch x.Op {
		case token.LSS, token.LEQ, token.GTR, token.GEQ:
			fn := v.sc.DeclareFun("flt."+x.Op.String(), []Sort{SFlt, SFlt}, SBool)
			return Sc{app(SBool, fn, as.T, bs.T)}
		default:
			fn := v.sc.DeclareFun("flt."+x.Op.String(), []Sort{SFlt, SFlt}, SFlt)
			return Sc{app(SFlt, fn, as.T, bs.T)}
		}
	case SInt:
		switch x.Op {
		case token.ADD:
			v.note("machine arithmetic treated as mathematical")
			return Sc{Add(as.T, bs.T)}
		case token.SUB:
			v.note("machine arithmetic treated as mathematical")
			return Sc{Sub(as.T, bs.T)}
		case token.MUL:
			v.note("machine arithmetic treated as mathematical")
			return Sc{app(SInt, "*", as.T, bs.T)}
		case token.QUO:
			v.safe(fr, "div", x, Not(Eq(bs.T, tZero)))
			// Go truncates toward zero
			q := app(SInt, "div", app(SInt, "abs", as.T), app(SInt, "abs", bs.T))
			neg := Not(Eq(Lt(as.T, tZero), Lt(bs.T, tZero)))
			return Sc{Ite(neg, app(SInt, "-", q), q)}
		case token.REM:
			v.safe(fr, "div", x, Not(Eq(bs.T, tZero)))
			r := app(SInt, "mod", app(SInt, "abs", as.T), app(SInt, "abs", bs.T))
			return Sc{Ite(Lt(as.T, tZero), app(SInt, "-", r), r)}
		case token.LSS:
			return Sc{Lt(as.T, bs.T)}
		case token.LEQ:
			return Sc{Le(as.T, bs.T)}
		case token.GTR:
			return Sc{Lt(bs.T, as.T)}
		case token.GEQ:
			return Sc{Le(bs.T, as.T)}
		case token.AND, token.OR, token.XOR, token.AND_NOT, token.SHL, token.SHR:
			return Sc{v.bitop(x.Op, as.T, bs.T, x.Type())}
		}
	}
	panic(unsupported("binop %s on sort %s", x.Op, s))
}

func pow2(k int) Term { return BigLit(new(big.Int).Lsh(big.NewInt(1), uint(k))) }

func (v *FnVC) bitop(op token.Token, a, b Term, t types.Type) Term {
	if n, ok := v.w.Contracts.FlagSets[typeKey(types.Unalias(t))]; ok && (op == token.AND || op == token.OR || op == token.AND_NOT || op == token.XOR) {
		// flag set of n bits: arithmetic encoding per bit
		bit := func(x Term, k int) Term {
			return Eq(app(SInt, "mod", app(SInt, "div", x, pow2(k)), IntLit(2)), IntLit(1))
		}
		var parts []Term
		for k := 0; k < n; k++ {
			var c Term
			switch op {
			case token.AND:
				c = And(bit(a, k), bit(b, k))
			case token.OR:
				c = Or(bit(a, k), bit(b, k))
			case token.AND_NOT:
				c = And(bit(a, k), Not(bit(b, k)))
			case token.XOR:
				c = Not(Eq(bit(a, k), bit(b, k)))
			}
			parts = append(parts, Ite(c, pow2(k), tZero))
		}
		return app(SInt, "+", parts...)
	}
	if op == token.SHL {
		if k, ok := smallLit(b); ok {
			return app(SInt, "*", a, pow2(k))
		}
	}
	if op == token.SHR {
		if k, ok := smallLit(b); ok {
			return app(SInt, "div", a, pow2(k))
		}
	}
	fn := v.sc.DeclareFun("bit."+op.String(), []Sort{SInt, SInt}, SInt)
	v.note("bit operations outside declared flag sets are uninterpreted")
	return app(SInt, fn, a, b)
}

func smallLit(t Term) (int, bool) {
	var k int
	if _, err := fmt.Sscanf(t.S, "%d", &k); err == nil && k >= 0 && k < 64 && fmt.Sprint(k) == t.S {
		return k, true
	}
	return 0, false
}

func (v *FnVC) equal(a, b Val, ta, tb types.Type) Term {
	a, b = v.scalarizeVal(a), v.scalarizeVal(b)
	switch x := a.(type) {
	case IfaceV:
		y, ok := b.(IfaceV)
		if !ok {
			panic(unsupported("iface == non-iface"))
		}
		return And(Eq(x.Tag, y.Tag), Eq(x.Ref, y.Ref))
	case SliceV:
		y := b.(SliceV)
		// only comparison with nil is legal
		_ = y
		if isZeroSlice(y) {
			return Eq(x.Arr, tZero)
		}
		if isZeroSlice(x) {
			return Eq(y.Arr, tZero)
		}
		panic(unsupported("slice comparison"))
	case FuncV:
		y, _ := b.(FuncV)
		if x.Ref.S == "" {
			x.Ref = v.funcRef(x)
		}
		if y.Ref.S == "" {
			y.Ref = v.funcRef(y)
		}
		return Eq(x.Ref, y.Ref)
	}
	return valEq(a, b)
}

func isZeroSlice(s SliceV) bool { return s.Arr.S == "0" }

func (v *FnVC) unop(fr *frame, st *State, x *ssa.UnOp) Val {
	a := v.value(fr, x.X)
	reach := fr.reach[fr.curBlock.Index]
	switch x.Op {
	case token.MUL:
		et := elemTypeOfAddr(x.X)
		if g, isG := x.X.(*ssa.Global); isG {
			if c, ok := v.w.ConstGlobals()[g]; ok {
				return v.constVal(c)
			}
		}
		if ps, ok := a.(Sc); ok {
			v.safe(fr, "nil", x, Not(Eq(ps.T, tZero)))
			if cv, ok := v.constCells[ps.T.S]; ok {
				return cv
			}
		}
		res := v.deref(st, a, et, reach)
		v.childInvariants(fr, st, x, res, reach)
		if g, isG := x.X.(*ssa.Global); isG {
			v.assumeConstStringSet(g, res, st, reach)
			v.assumeBigIntGlobal(g, res, reach)
		}
		return res
	case token.NOT:
		return Sc{Not(a.(Sc).T)}
	case token.SUB:
		s := a.(Sc)
		if s.T.Sort == SFlt {
			fn := v.sc.DeclareFun("flt.neg", []Sort{SFlt}, SFlt)
			return Sc{app(SFlt, fn, s.T)}
		}
		return Sc{app(SInt, "-", s.T)}
	case token.XOR:
		fn := v.sc.DeclareFun("bit.not", []Sort{SInt}, SInt)
		return Sc{app(SInt, fn, a.(Sc).T)}
	}
	panic(unsupported("unop %s", x.Op))
}

func (v *FnVC) convert(fr *frame, x *ssa.Convert) Val {
	a := v.value(fr, x.X)
	from, to := x.X.Type(), x.Type()
	fs, ts := kindOf(from), kindOf(to)
	if fs == kScalar && ts == kScalar {
		s1, s2 := scalarSort(from), scalarSort(to)
		at := a.(Sc).T
		switch {
		case s1 == s2 && s1 == SInt:
			lo, hi, ok := intRange(to)
			flo, fhi, fok := intRange(from)
			if ok && fok && lo.Cmp(flo) <= 0 && hi.Cmp(fhi) >= 0 {
				return a // widening
			}
			if ok {
				// wrap-around semantics: result ≡ a (mod 2^w) within range
				w := new(big.Int).Add(new(big.Int).Sub(hi, lo), big.NewInt(1))
				m := app(SInt, "mod", Sub(at, BigLit(lo)), BigLit(w))
				return Sc{v.sc.Define("conv", Add(m, BigLit(lo)))}
			}
			return a
		case s1 == s2:
			if s1 == SFlt {
				fn := v.sc.DeclareFun("flt.conv#"+typeKey(to), []Sort{SFlt}, SFlt)
				return Sc{app(SFlt, fn, at)}
			}
			return a
		case s1 == SInt && s2 == SFlt:
			fn := v.sc.DeclareFun("int2flt", []Sort{SInt}, SFlt)
			return Sc{app(SFlt, fn, at)}
		case s1 == SFlt && s2 == SInt:
			fn := v.sc.DeclareFun("flt2int", []Sort{SFlt}, SInt)
			r := Sc{app(SInt, fn, at)}
			v.assumeTyped(r, to, nil, tTrue)
			return r
		case s1 == SInt && s2 == SStr:
			return Sc{app(SStr, "str.from_code", at)}
		}
	}
	if ts == kSlice && scalarSort(from) == SStr && fs == kScalar {
		// []byte(s) / []rune(s): fresh slice of the right length (contents opaque)
		r := v.sc.Fresh("bytes", SInt)
		st := fr.curState
		v.sc.Assert(Lt(st.allocPtr, r))
		st.allocPtr = r
		return SliceV{r, tZero, app(SInt, "str.len", a.(Sc).T)}
	}
	if fs == kSlice && ts == kScalar && scalarSort(to) == SStr {
		sv := a.(SliceV)
		fn := v.sc.DeclareFun("bytes2str", []Sort{SInt, SInt, SInt, SInt}, SStr)
		tok := v.sc.Fresh("heaptok", SInt)
		s := app(SStr, fn, sv.Arr, sv.Off, sv.Len, tok)
		v.sc.Assert(Eq(app(SInt, "str.len", s), sv.Len))
		return Sc{s}
	}
	panic(unsupported("convert %s -> %s", from, to))
}

// ---------- interfaces ----------

func (v *FnVC) boxRef(t types.Type, val Val) Term {
	comps := flatten(v.scalarizeVal(val))
	sorts := flatSorts(t)
	name := "box#" + typeKey(types.Unalias(t))
	fn := v.sc.DeclareFun(name, sorts, SInt)
	r := app(SInt, fn, comps...)
	key := "box:" + r.S
	if !v.ufs[key] {
		v.ufs[key] = true
		var facts []Term
		for i, so := range sorts {
			ub := v.sc.DeclareFun(fmt.Sprintf("unbox#%s#%d", typeKey(types.Unalias(t)), i), []Sort{SInt}, so)
			facts = append(facts, Eq(app(so, ub, r), comps[i]))
		}
		facts = append(facts, Lt(r, tZero))
		v.sc.Assert(And(facts...))
	}
	return r
}

func (v *FnVC) unbox(t types.Type, ref Term) Val {
	sorts := flatSorts(t)
	ts := make([]Term, len(sorts))
	for i, so := range sorts {
		ub := v.sc.DeclareFun(fmt.Sprintf("unbox#%s#%d", typeKey(types.Unalias(t)), i), []Sort{SInt}, so)
		ts[i] = app(so, ub, ref)
	}
	val, _ := unflatten(t, ts)
	return val
}

func payloadIsRef(t types.Type) bool { return kindOf(t) == kScalar && isRefType(t) }

func (v *FnVC) makeIface(val Val, t types.Type) Val {
	if kindOf(t) == kIface {
		return val
	}
	tag := v.tagOf(t)
	if payloadIsRef(t) {
		return IfaceV{tag, v.scalarizeVal(val).(Sc).T}
	}
	return IfaceV{tag, v.boxRef(t, val)}
}

func (v *FnVC) typeAssert(fr *frame, x *ssa.TypeAssert) Val {
	iv, ok := v.value(fr, x.X).(IfaceV)
	if !ok {
		panic(unsupported("TypeAssert on %T", v.value(fr, x.X)))
	}
	reach := fr.reach[fr.curBlock.Index]
	at := x.AssertedType
	var okT Term
	var res Val
	if kindOf(at) == kIface {
		if it := under(at).(*types.Interface); it.NumMethods() == 0 {
			okT = Not(Eq(iv.Tag, tZero))
		} else {
			okT = And(Not(Eq(iv.Tag, tZero)), v.implTerm(at, iv.Tag))
		}
		res = iv
	} else {
		okT = Eq(iv.Tag, v.tagOf(at))
		if payloadIsRef(at) {
			res = Sc{iv.Ref}
		} else {
			res = v.unbox(at, iv.Ref)
			v.assumeTyped(res, at, fr.curState, And(reach, okT))
		}
	}
	okT = v.sc.Define("taok", okT)
	if x.CommaOk {
		z := zeroVal(at, v.sc)
		return TupleV{[]Val{valIte(okT, res, z, at), Sc{okT}}}
	}
	v.safe(fr, "assert", x, okT)
	return res
}

func describeInstr(ins ssa.Instruction) string {
	s := ins.String()
	if len(s) > 100 {
		s = s[:100]
	}
	return strings.TrimSpace(s)
}

// returnedWithError: the MakeInterface result is used only as a non-last operand of a Return whose last
// operand is an error; returns that error operand.
func returnedWithError(mi *ssa.MakeInterface) ssa.Value {
	refs := mi.Referrers()
	if refs == nil || len(*refs) == 0 {
		return nil
	}
	var errv ssa.Value
	for _, r := range *refs {
		ret, ok := r.(*ssa.Return)
		if !ok {
			if _, isDbg := r.(*ssa.DebugRef); isDbg {
				continue
			}
			return nil
		}
		n := len(ret.Results)
		if n < 2 || ret.Results[n-1] == ssa.Value(mi) {
			return nil
		}
		last := ret.Results[n-1]
		if !isErrorType(last.Type()) {
			return nil
		}
		if errv != nil && errv != last {
			return nil
		}
		errv = last
	}
	return errv
}

func isErrorType(t types.Type) bool {
	n, ok := types.Unalias(t).(*types.Named)
	return ok && n.Obj().Pkg() == nil && n.Obj().Name() == "error"
}

// childInvariants: x loads an element of `parent.<field>` (x = *(&(*(&parent.<field>))[i])) for which a child-invariant
// is declared: the declared fact about (element, parent) is assumed here.
func (v *FnVC) childInvariants(fr *frame, st *State, x *ssa.UnOp, res Val, reach Term) {
	cs := v.w.Contracts
	if len(cs.ChildInvs) == 0 || v.inTypeInv || v.top == nil {
		return
	}
	ia, ok := x.X.(*ssa.IndexAddr)
	if !ok {
		return
	}
	ld, ok := ia.X.(*ssa.UnOp)
	if !ok || ld.Op != token.MUL {
		return
	}
	fa, ok := ld.X.(*ssa.FieldAddr)
	if !ok {
		return
	}
	pt, ok := under(fa.X.Type()).(*types.Pointer)
	if !ok {
		return
	}
	stt, ok := under(pt.Elem()).(*types.Struct)
	if !ok {
		return
	}
	child, ok := res.(Sc)
	if !ok {
		return
	}
	parent, ok := v.value(fr, fa.X).(Sc)
	if !ok {
		return
	}
	for _, ci := range cs.ChildInvs {
		if ci.structKey == "" {
			ty, err := v.w.resolveType(ci.StructText, nil)
			if err != nil {
				panic(unsupported("child-invariant: %v", err))
			}
			ci.structKey = typeKey(ty)
		}
		if ci.structKey != typeKey(pt.Elem()) || stt.Field(fa.Field).Name() != ci.Field {
			continue
		}
		v.inTypeInv = true
		env := &specEnv{v: v, fr: v.top, st: st, old: st, bound: map[string]specVal{
			ci.Child:  {V: child, T: x.Type()},
			ci.Parent: {V: parent, T: fa.X.Type()},
		}, specPkg: v.w.pkgByShort(ci.Clause.Pkg), pol: -1}
		env.guard = reach
		body := env.evalBool(ci.Clause.Expr)
		v.inTypeInv = false
		v.sc.Assert(Implies(reach, body))
	}
}

// assumeConstStringSet: m was just loaded from a package-level map that init fills from a literal and nothing else
// writes (World.ConstStringSets): it is not nil and its key set is the literal's.
func (v *FnVC) assumeConstStringSet(g *ssa.Global, m Val, st *State, guard Term) {
	keys, ok := v.w.ConstStringSets()[g]
	if !ok {
		return
	}
	ms, ok := m.(Sc)
	if !ok {
		return
	}
	mt, ok := under(deref1(g.Type())).(*types.Map)
	if !ok {
		return
	}
	dom, _ := v.mapParts(st, mt, ms.T)
	var alts []string
	for _, k := range keys {
		alts = append(alts, fmt.Sprintf("(= csk %s)", StrLit(k).S))
	}
	body := "false"
	if len(alts) == 1 {
		body = alts[0]
	} else if len(alts) > 1 {
		body = "(or " + strings.Join(alts, " ") + ")"
	}
	q := fmt.Sprintf("(forall ((csk String)) (! (= (select %s csk) %s) :pattern ((select %s csk))))", dom.S, body, dom.S)
	v.sc.Assert(Implies(guard, And(Not(Eq(ms.T, tZero)), Term{q, SBool})))
	v.note("package-level table " + g.Name() + " is only written by its initialiser (checked on the SSA): its keys are the literal's")
}

// assumeBigIntGlobal: p was just loaded from a package-level *big.Int that init sets to big.NewInt(c) and nothing else
// writes (World.BigIntGlobals): it is not nil and denotes c.
func (v *FnVC) assumeBigIntGlobal(g *ssa.Global, p Val, guard Term) {
	c, ok := v.w.BigIntGlobals()[g]
	if !ok {
		return
	}
	ps, ok := p.(Sc)
	if !ok {
		return
	}
	lit := c
	if strings.HasPrefix(c, "-") {
		lit = "(- " + c[1:] + ")"
	}
	fn := v.sc.DeclareFun("spec#bigval#0", []Sort{SInt}, SInt)
	v.sc.Assert(Implies(guard, And(Not(Eq(ps.T, tZero)), Eq(app(SInt, fn, ps.T), Term{lit, SInt}))))
	v.note("package-level number " + g.Name() + " is only written by its initialiser big.NewInt(" + c + ") (checked on the SSA)")
}

// deferRunsAtEveryExit: the defer statement sits outside every loop in a block that dominates every exit of the
// function (every RunDefers), so the deferred call is registered exactly once on every path that returns normally.
// What a panic would do (run the deferred calls, then the Recover block) is not modelled: panics are obligations.
func deferRunsAtEveryExit(d *ssa.Defer) bool {
	fn := d.Parent()
	if fn == nil || d.Call.IsInvoke() {
		return false
	}
	if d.Call.StaticCallee() == nil {
		return false
	}
	db := d.Block()
	for _, b := range fn.Blocks {
		for _, s := range b.Succs {
			if isBackEdge(b, s) {
				// db inside the loop s..b ?
				if s.Dominates(db) && blockReaches(db, b) {
					return false
				}
			}
		}
		for _, ins := range b.Instrs {
			if _, ok := ins.(*ssa.RunDefers); ok {
				if b != db && !db.Dominates(b) {
					return false
				}
			}
		}
	}
	return true
}

func blockReaches(from, to *ssa.BasicBlock) bool {
	seen := map[int]bool{}
	var dfs func(b *ssa.BasicBlock) bool
	dfs = func(b *ssa.BasicBlock) bool {
		if b == to {
			return true
		}
		if seen[b.Index] {
			return false
		}
		seen[b.Index] = true
		for _, s := range b.Succs {
			if dfs(s) {
				return true
			}
		}
		return false
	}
	return dfs(from)
}
