package main

import (
	"flag"
	"fmt"
	"os"
	"regexp"
	"sort"
	"strings"
	"time"

	"golang.org/x/tools/go/ssa"
)

func usage() {
	fmt.Fprintln(os.Stderr, `usage:
  govc fn [-t sec] [-dump] <funcKey-regexp>     build and solve the obligations of matching functions
  govc list <regexp>                            list function keys
  govc check -p Cxx [-tier quick|thorough]      run the registered check of a property
  govc relock [-p Cxx]                          recompute the lock file
  govc replay <file>                            re-run a recorded replay`)
	os.Exit(2)
}

func main() {
	defer cleanupScratch()
	if len(os.Args) < 2 {
		usage()
	}
	switch os.Args[1] {
	case "fn":
		cmdFn(os.Args[2:])
	case "list":
		cmdList(os.Args[2:])
	case "mods":
		w := mustWorld()
		for _, k := range os.Args[2:] {
			f := w.Funcs[k]
			if f == nil {
				fmt.Println("no such function", k)
				continue
			}
			ms := w.mods.Of(f)
			fmt.Printf("%s: top=%v fams=%d\n", k, ms.Top, len(ms.Fams))
			if ms.Top {
				// explain: direct callees that are Top
				if n := w.CG.Nodes[f]; n != nil {
					seen := map[string]bool{}
					for _, e := range n.Out {
						c := e.Callee.Func
						cm := w.mods.Of(c)
						if cm.Top && !seen[FuncKey(c)] {
							seen[FuncKey(c)] = true
							fmt.Printf("   top callee: %s (in module: %v)\n", FuncKey(c), w.InModule(c))
						}
					}
				}
			} else {
				var fs []string
				for fam := range ms.Fams {
					if ms.NonFresh[fam] {
						fs = append(fs, fam+"   [pre-existing objects too]")
					} else {
						fs = append(fs, fam)
					}
				}
				sort.Strings(fs)
				fmt.Println("  ", strings.Join(fs, "\n   "))
			}
		}
	case "check":
		os.Exit(cmdCheck(os.Args[2:]))
	case "relock":
		os.Exit(cmdRelock(os.Args[2:]))
	case "replay":
		os.Exit(cmdReplay(os.Args[2:]))
	default:
		if h, ok := debugHooks[os.Args[1]]; ok {
			h(mustWorld(), os.Args[2:])
			return
		}
		usage()
	}
}

var debugHooks = map[string]func(w *World, args []string){}

func mustWorld() *World {
	t0 := time.Now()
	w, err := LoadWorld()
	if err != nil {
		fmt.Fprintln(os.Stderr, "govc: load:", err)
		cleanupScratch()
		os.Exit(2)
	}
	if err := w.LoadContracts(); err != nil {
		fmt.Fprintln(os.Stderr, "govc: contracts:", err)
		cleanupScratch()
		os.Exit(2)
	}
	w.ComputeMods()
	w.ConcreteTypes()
	if len(w.ImmutableViolations) > 0 {
		fmt.Fprintln(os.Stderr, "govc: immutable declaration contradicted by the code:", strings.Join(w.ImmutableViolations, "; "))
		cleanupScratch()
		os.Exit(2)
	}
	if os.Getenv("GOVC_VERBOSE") != "" {
		for _, p := range w.PureUnverified {
			fmt.Fprintln(os.Stderr, "pure/assigns-nothing declaration not confirmed by the effect analysis:", p)
		}
		for _, u := range w.Contracts.Unbound {
			fmt.Fprintln(os.Stderr, "unbound contract:", u)
		}
		fmt.Fprintf(os.Stderr, "loaded in %v: %d functions, %d contracts (%d unbound)\n", time.Since(t0), len(w.AllFns), len(w.Contracts.ByKey), len(w.Contracts.Unbound))
	}
	return w
}

func cmdList(args []string) {
	w := mustWorld()
	re := regexp.MustCompile(strings.Join(args, " "))
	var keys []string
	for k, f := range w.Funcs {
		if w.InModule(f) && re.MatchString(k) {
			keys = append(keys, k)
		}
	}
	sort.Strings(keys)
	for _, k := range keys {
		fmt.Println(k)
	}
}

func cmdFn(args []string) {
	fs := flag.NewFlagSet("fn", flag.ExitOnError)
	tsec := fs.Int("t", 10, "timeout per query (s)")
	dump := fs.String("dump", "", "write queries whose id matches this regexp to ./dump/")
	only := fs.String("only", "", "only obligations whose id matches")
	showAll := fs.Bool("v", false, "print discharged obligations too")
	doReplay := fs.Bool("replay", false, "replay sat SAFE obligations on the real code")
	fs.Parse(args)
	w := mustWorld()
	re := regexp.MustCompile(fs.Arg(0))
	var fns []*ssa.Function
	for k, f := range w.Funcs {
		if w.InModule(f) && re.MatchString(k) && len(f.Blocks) > 0 {
			fns = append(fns, f)
		}
	}
	sort.Slice(fns, func(i, j int) bool { return FuncKey(fns[i]) < FuncKey(fns[j]) })
	var all []*Obligation
	for _, f := range fns {
		v := NewFnVC(w, f)
		if err := v.Build(); err != nil {
			fmt.Printf("OUT-OF-SUBSET %s: %v\n", FuncKey(f), err)
			continue
		}
		for _, u := range v.unboundClauses {
			fmt.Printf("UNBOUND-CLAUSE %s#%s\n", FuncKey(f), u)
		}
		all = append(all, v.obls...)
	}
	if *only != "" {
		r2 := regexp.MustCompile(*only)
		var sel []*Obligation
		for _, o := range all {
			if r2.MatchString(o.ID) {
				sel = append(sel, o)
			}
		}
		all = sel
	}
	t0 := time.Now()
	SolveAll(all, solveOpts{timeout: time.Duration(*tsec) * time.Second, getModel: true}, 16)
	cnt := map[string]int{}
	for _, o := range all {
		ok := discharged(o)
		if ok {
			cnt["discharged"]++
		} else {
			cnt[o.Status]++
		}
		if !ok || *showAll {
			fmt.Printf("%-8s %-7s %5dms %s  [%s]\n", o.Status, o.Solver, o.Ms, o.ID, o.Pos)
			if o.Status == "error" {
				fmt.Println("     ", o.Model)
			}
			if *doReplay && o.Status == "sat" && o.Expect != "sat" {
				rr := tryReplay(w, o)
				fmt.Printf("      replay: reproduced=%v %s\n", rr.Reproduced, rr.Detail)
				if os.Getenv("GOVC_VERBOSE") != "" {
					fmt.Println(rr.TestSource)
					fmt.Println(rr.Output)
				}
			}
		}
		if *dump != "" && regexp.MustCompile(*dump).MatchString(o.ID) {
			os.MkdirAll("dump", 0o755)
			name := regexp.MustCompile(`[^A-Za-z0-9_.-]+`).ReplaceAllString(o.ID, "_")
			if len(name) > 150 {
				name = name[:150]
			}
			os.WriteFile("dump/"+name+".smt2", []byte(o.Query(true)+"(get-model)\n"), 0o644)
		}
	}
	fmt.Printf("%d obligations in %d functions: %v (%.1fs)\n", len(all), len(fns), cnt, time.Since(t0).Seconds())
}

func init() {
	debugHooks["emits"] = func(w *World, args []string) {
		for _, k := range args {
			f := w.Funcs[k]
			if f == nil {
				fmt.Println("no such function", k)
				continue
			}
			fs, top := w.mods.MayEmit(f)
			fmt.Printf("%s: top=%v\n", k, top)
			for x := range fs {
				fmt.Printf("   %q\n", x)
			}
		}
	}
}

func init() {
	debugHooks["loops"] = func(w *World, args []string) {
		// loops <funcKey-regexp>: the loop ordinals used by `invariant n:` / `iteration n:` with the source line of each header
		re := regexp.MustCompile(args[0])
		var keys []string
		for k, f := range w.Funcs {
			if w.InModule(f) && re.MatchString(k) {
				keys = append(keys, k)
			}
		}
		sort.Strings(keys)
		for _, k := range keys {
			f := w.Funcs[k]
			v := NewFnVC(w, f)
			loops := v.findLoops(f)
			var hs []int
			for h := range loops {
				hs = append(hs, h)
			}
			sort.Ints(hs)
			for _, h := range hs {
				li := loops[h]
				line := 0
				for _, ins := range li.header.Instrs {
					if ins.Pos().IsValid() {
						line = w.Fset.Position(ins.Pos()).Line
						break
					}
				}
				if line == 0 {
					for _, b := range f.Blocks {
						if li.body[b.Index] {
							for _, ins := range b.Instrs {
								if ins.Pos().IsValid() && (line == 0 || w.Fset.Position(ins.Pos()).Line < line) {
									line = w.Fset.Position(ins.Pos()).Line
								}
							}
						}
					}
				}
				fmt.Printf("%s loop%d header=b%d line~%d (%s)\n", k, li.ordinal, h, line, li.header.Comment)
			}
		}
	}
	debugHooks["where"] = func(w *World, args []string) {
		re := regexp.MustCompile(args[0])
		var keys []string
		for k, f := range w.Funcs {
			if w.InModule(f) && re.MatchString(k) {
				keys = append(keys, k)
			}
		}
		sort.Strings(keys)
		for _, k := range keys {
			f := w.Funcs[k]
			p := w.Fset.Position(f.Pos())
			fmt.Printf("%s  %s:%d\n", k, strings.TrimPrefix(p.Filename, "/repo/tooling/"), p.Line)
		}
	}
}
