package main

import (
	"fmt"
	"os"
	"time"

	"golang.org/x/tools/go/packages"
	"golang.org/x/tools/go/ssa"
	"golang.org/x/tools/go/ssa/ssautil"
)

func main() {
	t0 := time.Now()
	cfg := &packages.Config{Mode: packages.LoadAllSyntax, Dir: "/repo/tooling", BuildFlags: []string{"-tags=verif"}}
	pkgs, err := packages.Load(cfg, "./...")
	if err != nil {
		fmt.Println(err)
		os.Exit(2)
	}
	prog, spkgs := ssautil.AllPackages(pkgs, ssa.InstantiateGenerics)
	prog.Build()
	n := 0
	for f := range ssautil.AllFunctions(prog) {
		if f.Pkg != nil && len(f.Blocks) > 0 {
			n++
		}
	}
	fmt.Println(len(spkgs), n, time.Since(t0))
}
