package main

import (
	"fmt"
	"go/ast"
	"go/token"
	"go/types"
	"os"
	"sort"
	"strings"

	"golang.org/x/tools/go/ast/astutil"
	"golang.org/x/tools/go/callgraph"
	"golang.org/x/tools/go/callgraph/cha"
	"golang.org/x/tools/go/packages"
	"golang.org/x/tools/go/ssa"
	"golang.org/x/tools/go/ssa/ssautil"
)

const modulePath = "github.com/microsoft/yardl/tooling"

// World is everything loaded from /repo on this run.
type World struct {
	Fset    *token.FileSet
	Pkgs    []*packages.Package
	PkgByID map[string]*packages.Package
	Prog    *ssa.Program
	Funcs   map[string]*ssa.Function // key: short name, e.g. "dsl.(*RecordDefinition).UnmarshalYAML"
	AllFns  []*ssa.Function
	CG      *callgraph.Graph
	srcs    map[string][]byte
	fileOf  map[*token.File]*ast.File
	pkgOfFn map[*ssa.Function]*packages.Package

	Contracts *ContractSet
	mods      *ModInfo

	tagIDs   map[string]int
	tagTypes []types.Type
	globIDs  map[string]int
	concrete []types.Type

	ImmutableViolations []string
	PureUnverified      []string
	indexByContainer    bool
	constGlobals        map[*ssa.Global]*ssa.Const
	constStringSets     map[*ssa.Global][]string
	bigIntGlobals       map[*ssa.Global]string
	singleStore         map[*ssa.Alloc]bool
	parametric          map[*ssa.Function]bool
	reachMemo           map[[2]*ssa.Function]bool
}

func repoDir() string {
	if d := os.Getenv("GOVC_REPO"); d != "" {
		return d
	}
	return "/repo/tooling"
}

func LoadWorld() (*World, error) {
	cfg := &packages.Config{Mode: packages.LoadAllSyntax, Dir: repoDir(), BuildFlags: []string{"-tags=verif"},
		Env: append(os.Environ(), "GOFLAGS=-mod=mod", "GOPROXY=off")}
	pkgs, err := packages.Load(cfg, "./...")
	if err != nil {
		return nil, err
	}
	var errs []string
	packages.Visit(pkgs, nil, func(p *packages.Package) {
		if strings.HasPrefix(p.PkgPath, modulePath) {
			for _, e := range p.Errors {
				errs = append(errs, e.Error())
			}
		}
	})
	if len(errs) > 0 {
		return nil, fmt.Errorf("load errors: %s", strings.Join(errs, "; "))
	}
	w := &World{Pkgs: pkgs, PkgByID: map[string]*packages.Package{}, Funcs: map[string]*ssa.Function{},
		srcs: map[string][]byte{}, fileOf: map[*token.File]*ast.File{}, pkgOfFn: map[*ssa.Function]*packages.Package{}}
	if len(pkgs) > 0 {
		w.Fset = pkgs[0].Fset
	}
	packages.Visit(pkgs, nil, func(p *packages.Package) { w.PkgByID[p.PkgPath] = p })
	prog, _ := ssautil.AllPackages(pkgs, ssa.InstantiateGenerics|ssa.GlobalDebug)
	prog.Build()
	w.Prog = prog
	for f := range ssautil.AllFunctions(prog) {
		if f.Pkg == nil && f.Origin() == nil && f.Parent() == nil {
			continue
		}
		if isGenericTemplate(f) {
			continue
		}
		w.AllFns = append(w.AllFns, f)
	}
	sort.Slice(w.AllFns, func(i, j int) bool { return w.AllFns[i].String() < w.AllFns[j].String() })
	for _, f := range w.AllFns {
		k := FuncKey(f)
		if _, dup := w.Funcs[k]; !dup {
			w.Funcs[k] = f
		}
	}
	for _, p := range w.PkgByID {
		for _, af := range p.Syntax {
			tf := w.Fset.File(af.Pos())
			if tf != nil {
				w.fileOf[tf] = af
			}
		}
	}
	w.CG = cha.CallGraph(prog)
	return w, nil
}

// FuncKey: package *name* qualified relative name; full path for non-module packages.
func FuncKey(f *ssa.Function) string {
	p := f.Pkg
	if p == nil {
		if o := f.Origin(); o != nil {
			p = o.Pkg
		}
	}
	if p == nil {
		// closures of generic instances etc.
		if f.Parent() != nil {
			return FuncKey(f.Parent()) + "$" + f.Name()
		}
		return f.String()
	}
	rel := f.RelString(p.Pkg)
	if strings.HasPrefix(p.Pkg.Path(), modulePath) {
		return shortPkg(p.Pkg.Path()) + "." + rel
	}
	return p.Pkg.Path() + "." + rel
}

// shortPkg gives a unique short name for module packages: last element, or
// last two joined by "/" when the last is ambiguous (binary, ndjson, types, protocols, common...).
func shortPkg(path string) string {
	rest := strings.TrimPrefix(path, modulePath)
	rest = strings.TrimPrefix(rest, "/")
	rest = strings.TrimPrefix(rest, "internal/")
	rest = strings.TrimPrefix(rest, "pkg/")
	if rest == "" {
		return "tooling"
	}
	return rest
}

func (w *World) InModule(f *ssa.Function) bool {
	p := f.Pkg
	if p == nil && f.Origin() != nil {
		p = f.Origin().Pkg
	}
	if p == nil && f.Parent() != nil {
		return w.InModule(f.Parent())
	}
	return p != nil && strings.HasPrefix(p.Pkg.Path(), modulePath)
}

func (w *World) src(filename string) []byte {
	if b, ok := w.srcs[filename]; ok {
		return b
	}
	b, _ := os.ReadFile(filename)
	w.srcs[filename] = b
	return b
}

// ExprText returns normalised source text of the smallest AST node of one of the
// wanted kinds that encloses pos.
func (w *World) ExprText(pos token.Pos, want func(ast.Node) bool) string {
	if !pos.IsValid() {
		return ""
	}
	tf := w.Fset.File(pos)
	if tf == nil {
		return ""
	}
	af := w.fileOf[tf]
	if af == nil {
		return ""
	}
	path, _ := astutil.PathEnclosingInterval(af, pos, pos)
	for _, n := range path {
		if want(n) {
			b := w.src(tf.Name())
			s, e := tf.Offset(n.Pos()), tf.Offset(n.End())
			// indexing obligations are identified by the indexed container, not by the index expression:
			// "every indexing of X in this function is in bounds"
			switch x := n.(type) {
			case *ast.IndexExpr:
				if w.indexByContainer {
					s2, e2 := tf.Offset(x.X.Pos()), tf.Offset(x.X.End())
					if s2 >= 0 && e2 <= len(b) && s2 < e2 {
						return normText(string(b[s2:e2])) + "[]"
					}
				}
			case *ast.SliceExpr:
				if w.indexByContainer {
					s2, e2 := tf.Offset(x.X.Pos()), tf.Offset(x.X.End())
					if s2 >= 0 && e2 <= len(b) && s2 < e2 {
						return normText(string(b[s2:e2])) + "[:]"
					}
				}
			}
			if s >= 0 && e <= len(b) && s < e {
				return normText(string(b[s:e]))
			}
		}
	}
	return ""
}

func normText(s string) string {
	f := strings.Fields(s)
	t := strings.Join(f, " ")
	if len(t) > 90 {
		t = t[:90] + "…"
	}
	return t
}

func (w *World) FileOfFunc(f *ssa.Function) string {
	for g := f; g != nil; g = g.Parent() {
		if g.Pos().IsValid() {
			return w.Fset.Position(g.Pos()).Filename
		}
		if o := g.Origin(); o != nil && o.Pos().IsValid() {
			return w.Fset.Position(o.Pos()).Filename
		}
	}
	return ""
}

func typeKey(t types.Type) string {
	return types.TypeString(t, func(p *types.Package) string {
		if strings.HasPrefix(p.Path(), modulePath) {
			return shortPkg(p.Path())
		}
		return p.Path()
	})
}

func isGenericTemplate(f *ssa.Function) bool {
	for g := f; g != nil; g = g.Parent() {
		if g.TypeParams().Len() > 0 && len(g.TypeArgs()) == 0 {
			return true
		}
	}
	return false
}

// pkgByShort: the module package with that short path ("dsl", "cpp/binary", ...), or nil.
func (w *World) pkgByShort(short string) *types.Package {
	if short == "" {
		return nil
	}
	for path, p := range w.PkgByID {
		if shortPkg(path) == short && p.Types != nil {
			return p.Types
		}
	}
	return nil
}
