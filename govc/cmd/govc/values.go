package main

import (
	"fmt"
	"go/types"
	"math/big"

	"golang.org/x/tools/go/ssa"
)

// Val is a symbolic Go value kept on the Go side as a bundle of SMT terms.
type Val interface{}

type Sc struct{ T Term }                // scalar: ints, bools, strings, floats(opaque), refs (pointers to structs, maps, chans, boxes)
type SliceV struct{ Arr, Off, Len Term } // nil slice: Arr == 0
type IfaceV struct{ Tag, Ref Term }      // nil interface: Tag == 0
type StructV struct {
	F []Val
	T *types.Struct
}
type TupleV struct{ E []Val }
type PtrV struct{ L Loc } // pointer to a non-struct location whose origin is known syntactically
type FuncV struct {
	Fn   *ssa.Function
	Bind []Val
	Ref  Term // opaque identity
}

// Loc is an addressable non-struct location.
type Loc struct {
	Kind  int // 0 field, 1 elem, 2 box
	Base  Term
	Idx   Term   // elem: absolute index (off+i)
	SKey  string // field: struct key
	FName string // field name
	T     types.Type
}

const (
	locField = iota
	locElem
	locBox
)

type TypeKind int

const (
	kScalar TypeKind = iota
	kSlice
	kIface
	kStruct
	kArray
	kTuple
	kFunc
)

func under(t types.Type) types.Type {
	for {
		u := t.Underlying()
		if a, ok := u.(*types.Alias); ok {
			t = types.Unalias(a)
			continue
		}
		return u
	}
}

func kindOf(t types.Type) TypeKind {
	t = types.Unalias(t)
	if tp, ok := t.(*types.TypeParam); ok {
		_ = tp
		return kIface
	}
	switch u := under(t).(type) {
	case *types.Slice:
		return kSlice
	case *types.Interface:
		return kIface
	case *types.Struct:
		return kStruct
	case *types.Array:
		return kArray
	case *types.Tuple:
		return kTuple
	case *types.Signature:
		return kFunc
	default:
		_ = u
		return kScalar
	}
}

func scalarSort(t types.Type) Sort {
	switch u := under(t).(type) {
	case *types.Basic:
		info := u.Info()
		switch {
		case info&types.IsBoolean != 0:
			return SBool
		case info&types.IsString != 0:
			return SStr
		case info&types.IsInteger != 0:
			return SInt
		case info&(types.IsFloat|types.IsComplex) != 0:
			return SFlt
		case u.Kind() == types.UnsafePointer:
			return SInt
		case u.Kind() == types.UntypedNil:
			return SInt
		}
	}
	return SInt // pointers, maps, chans, funcs
}

func isRefType(t types.Type) bool {
	switch under(t).(type) {
	case *types.Pointer, *types.Map, *types.Chan, *types.Signature:
		return true
	}
	return false
}

func intRange(t types.Type) (lo, hi *big.Int, ok bool) {
	b, isb := under(t).(*types.Basic)
	if !isb || b.Info()&types.IsInteger == 0 {
		return nil, nil, false
	}
	p := func(e uint) *big.Int { return new(big.Int).Lsh(big.NewInt(1), e) }
	m1 := func(x *big.Int) *big.Int { return new(big.Int).Sub(x, big.NewInt(1)) }
	switch b.Kind() {
	case types.Int8:
		return new(big.Int).Neg(p(7)), m1(p(7)), true
	case types.Int16:
		return new(big.Int).Neg(p(15)), m1(p(15)), true
	case types.Int32:
		return new(big.Int).Neg(p(31)), m1(p(31)), true
	case types.Int, types.Int64:
		return new(big.Int).Neg(p(63)), m1(p(63)), true
	case types.Uint8:
		return big.NewInt(0), m1(p(8)), true
	case types.Uint16:
		return big.NewInt(0), m1(p(16)), true
	case types.Uint32:
		return big.NewInt(0), m1(p(32)), true
	case types.Uint, types.Uint64, types.Uintptr:
		return big.NewInt(0), m1(p(64)), true
	}
	return nil, nil, false
}

// structKey identifies a struct type for heap array naming.
func structKey(t types.Type) string {
	t = types.Unalias(t)
	if p, ok := t.(*types.Pointer); ok {
		t = p.Elem()
	}
	return typeKey(types.Unalias(t))
}

// ---- flattening of register values into component terms ----

func flatten(v Val) []Term {
	switch x := v.(type) {
	case Sc:
		return []Term{x.T}
	case SliceV:
		return []Term{x.Arr, x.Off, x.Len}
	case IfaceV:
		return []Term{x.Tag, x.Ref}
	case StructV:
		var out []Term
		for _, f := range x.F {
			out = append(out, flatten(f)...)
		}
		return out
	case TupleV:
		var out []Term
		for _, f := range x.E {
			out = append(out, flatten(f)...)
		}
		return out
	case FuncV:
		return []Term{x.Ref}
	case PtrV:
		panic("flatten of PtrV: escape first")
	}
	panic(fmt.Sprintf("flatten: %T", v))
}

func flatSorts(t types.Type) []Sort {
	switch kindOf(t) {
	case kSlice:
		return []Sort{SInt, SInt, SInt}
	case kIface:
		return []Sort{SInt, SInt}
	case kStruct:
		st := under(t).(*types.Struct)
		var out []Sort
		for i := 0; i < st.NumFields(); i++ {
			out = append(out, flatSorts(st.Field(i).Type())...)
		}
		return out
	case kTuple:
		tu := under(t).(*types.Tuple)
		var out []Sort
		for i := 0; i < tu.Len(); i++ {
			out = append(out, flatSorts(tu.At(i).Type())...)
		}
		return out
	case kArray:
		return []Sort{SInt} // by-value arrays are kept as an opaque snapshot id
	case kFunc:
		return []Sort{SInt}
	}
	return []Sort{scalarSort(t)}
}

func unflatten(t types.Type, ts []Term) (Val, []Term) {
	switch kindOf(t) {
	case kSlice:
		return SliceV{ts[0], ts[1], ts[2]}, ts[3:]
	case kIface:
		return IfaceV{ts[0], ts[1]}, ts[2:]
	case kStruct:
		st := under(t).(*types.Struct)
		sv := StructV{T: st}
		for i := 0; i < st.NumFields(); i++ {
			var f Val
			f, ts = unflatten(st.Field(i).Type(), ts)
			sv.F = append(sv.F, f)
		}
		return sv, ts
	case kTuple:
		tu := under(t).(*types.Tuple)
		tv := TupleV{}
		for i := 0; i < tu.Len(); i++ {
			var f Val
			f, ts = unflatten(tu.At(i).Type(), ts)
			tv.E = append(tv.E, f)
		}
		return tv, ts
	case kFunc:
		return FuncV{Ref: ts[0]}, ts[1:]
	}
	return Sc{ts[0]}, ts[1:]
}

func zeroTerm(s Sort, sc *Script) Term {
	switch s {
	case SInt:
		return tZero
	case SBool:
		return tFalse
	case SStr:
		return StrLit("")
	case SFlt:
		return sc.DeclareConst("flt#0", SFlt)
	}
	panic("zeroTerm " + string(s))
}

func zeroVal(t types.Type, sc *Script) Val {
	var ts []Term
	for _, s := range flatSorts(t) {
		ts = append(ts, zeroTerm(s, sc))
	}
	v, _ := unflatten(t, ts)
	return v
}

// valEq builds equality of two values of the same type.
func valEq(a, b Val) Term {
	fa, fb := flatten(a), flatten(b)
	var cs []Term
	for i := range fa {
		cs = append(cs, Eq(fa[i], fb[i]))
	}
	return And(cs...)
}

func valIte(c Term, a, b Val, t types.Type) Val {
	if pa, ok := a.(PtrV); ok {
		if pb, ok2 := b.(PtrV); ok2 && pa.L.Kind == pb.L.Kind && pa.L.SKey == pb.L.SKey && pa.L.FName == pb.L.FName {
			l := pa.L
			l.Base = Ite(c, pa.L.Base, pb.L.Base)
			if pa.L.Kind == locElem {
				l.Idx = Ite(c, pa.L.Idx, pb.L.Idx)
			}
			return PtrV{l}
		}
		panic(unsupported("phi of pointers to different locations"))
	}
	if fa, ok := a.(FuncV); ok {
		if fb, ok2 := b.(FuncV); ok2 && fa.Fn == fb.Fn && fa.Fn != nil && len(fa.Bind) == 0 {
			return fa
		}
		fb, _ := b.(FuncV)
		return FuncV{Ref: Ite(c, fa.Ref, fb.Ref)}
	}
	fa, fb := flatten(a), flatten(b)
	out := make([]Term, len(fa))
	for i := range fa {
		out[i] = Ite(c, fa[i], fb[i])
	}
	v, _ := unflatten(t, out)
	return v
}

type unsupportedErr struct{ msg string }

func (u unsupportedErr) Error() string { return u.msg }
func unsupported(format string, a ...any) unsupportedErr {
	return unsupportedErr{fmt.Sprintf(format, a...)}
}
