package main

import (
	"bytes"
	"context"
	"fmt"
	"os"
	"os/exec"
	"path/filepath"
	"strings"
	"sync"
	"time"
)

type solverSpec struct {
	name string
	args []string
}

var solvers = []solverSpec{
	{"z3-new", []string{"z3-new", "-smt2"}},
	{"cvc5", []string{"cvc5", "--lang=smt2", "--strings-exp", "--arrays-exp"}},
	{"z3", []string{"z3", "-smt2"}},
	// z3 5.1 without its automatic configuration: a different tactic pipeline, which decides quantified goals over
	// string-keyed maps in milliseconds where the default configuration runs out of time
	{"z3-new/plain", []string{"z3-new", "-smt2", "smt.auto_config=false"}},
}

type solveOpts struct {
	timeout  time.Duration
	all      bool // run every solver (thorough: agreement)
	seed     int
	keepDir  string
	wantSat  bool
	getModel bool
}

func runSolver(sp solverSpec, file string, timeout time.Duration, seed int) (string, string, time.Duration) {
	ctx, cancel := context.WithTimeout(context.Background(), timeout)
	defer cancel()
	args := append([]string{}, sp.args[1:]...)
	if seed != 0 {
		switch sp.name {
		case "z3", "z3-new", "z3-new/plain":
			args = append(args, fmt.Sprintf("smt.random_seed=%d", seed), fmt.Sprintf("sat.random_seed=%d", seed))
		case "cvc5":
			args = append(args, fmt.Sprintf("--seed=%d", seed))
		}
	}
	args = append(args, file)
	cmd := exec.CommandContext(ctx, sp.args[0], args...)
	var out bytes.Buffer
	cmd.Stdout = &out
	cmd.Stderr = &out
	t0 := time.Now()
	cmd.Run()
	el := time.Since(t0)
	if ctx.Err() != nil {
		return "timeout", out.String(), el
	}
	first := strings.TrimSpace(strings.SplitN(strings.TrimSpace(out.String()), "\n", 2)[0])
	switch first {
	case "sat", "unsat", "unknown":
		return first, out.String(), el
	}
	return "error", out.String(), el
}

var tmpRoot string

func scratchDir() string {
	if tmpRoot == "" {
		d := os.Getenv("GOVC_TMP")
		if d == "" {
			d = filepath.Join(os.TempDir(), fmt.Sprintf("govc-%d", os.Getpid()))
		}
		os.MkdirAll(d, 0o755)
		tmpRoot = d
	}
	return tmpRoot
}

func cleanupScratch() {
	if tmpRoot != "" && os.Getenv("GOVC_KEEP") == "" {
		os.RemoveAll(tmpRoot)
	}
}

var fileCounter int
var fileMu sync.Mutex

// Solve decides one obligation. Discharged = unsat (or sat for cover queries).
func Solve(o *Obligation, opts solveOpts) {
	if o.presolved {
		return
	}
	fileMu.Lock()
	fileCounter++
	n := fileCounter
	fileMu.Unlock()
	file := filepath.Join(scratchDir(), fmt.Sprintf("q%06d.smt2", n))
	q := o.Query(false)
	if opts.getModel {
		q += "(get-model)\n"
	}
	os.WriteFile(file, []byte(q), 0o644)
	defer func() {
		if os.Getenv("GOVC_KEEP") == "" {
			os.Remove(file)
		}
	}()
	if o.Expect == "notunsat" {
		to := opts.timeout
		if to > 3*time.Second {
			to = 3 * time.Second
		}
		st, out, el := runSolver(solvers[0], file, to, opts.seed)
		if st != "unsat" && st != "error" {
			st2, _, el2 := runSolver(solvers[1], file, to, opts.seed)
			el += el2
			if st2 == "unsat" {
				st = "unsat"
			}
		}
		o.Status, o.Solver, o.Ms = st, solvers[0].name, el.Milliseconds()
		if st == "error" {
			o.Model = firstLines(out, 3)
		}
		return
	}
	want := "unsat"
	if o.Expect == "sat" {
		want = "sat"
	}
	var total time.Duration
	agree := 0
	o.Status = "unknown"
	// first a short slice for every back end (most goals are decided in milliseconds by at least one of them), then
	// the full time for those that ran out of it
	type attempt struct {
		sp      solverSpec
		to      time.Duration
		variant int
	}
	var plan []attempt
	short := opts.timeout / 4
	if short < 2*time.Second {
		short = 2 * time.Second
	}
	// the second formulation of the goal (see Obligation.QueryVariant) is tried where the first is not decided
	variants := []int{0}
	file1 := ""
	if o.HasVariant() && o.Expect != "sat" {
		variants = append(variants, 1)
		file1 = strings.TrimSuffix(file, ".smt2") + "v.smt2"
		q1 := o.QueryVariant(1)
		if opts.getModel {
			q1 += "(get-model)\n"
		}
		os.WriteFile(file1, []byte(q1), 0o644)
		defer func() {
			if os.Getenv("GOVC_KEEP") == "" {
				os.Remove(file1)
			}
		}()
	}
	if opts.all || short >= opts.timeout {
		for _, va := range variants {
			for _, sp := range solvers {
				plan = append(plan, attempt{sp, opts.timeout, va})
			}
		}
	} else {
		for _, va := range variants {
			for _, sp := range solvers {
				plan = append(plan, attempt{sp, short, va})
			}
		}
		for _, va := range variants {
			for _, sp := range solvers {
				plan = append(plan, attempt{sp, opts.timeout, va})
			}
		}
	}
	gaveUp := map[string]bool{}
	for i, at := range plan {
		sp := at.sp
		key := fmt.Sprintf("%s/%d", sp.name, at.variant)
		if i >= len(solvers)*len(variants) && !opts.all && gaveUp[key] {
			continue // answered `unknown` before its time was up: more time will not help
		}
		f := file
		if at.variant == 1 {
			f = file1
		}
		st, out, el := runSolver(sp, f, at.to, opts.seed)
		total += el
		if st == "unknown" {
			gaveUp[key] = true
		}
		if st == "error" {
			if o.Status == "unknown" {
				o.Status = "error"
				o.Model = sp.name + ": " + firstLines(out, 3)
			}
			continue
		}
		if st == "sat" || st == "unsat" {
			if o.Solver == "" || st == want {
				o.Status = st
				o.Solver = sp.name
				if st == "sat" {
					o.Model = out
				}
			}
			if st == want {
				agree++
			}
			if !opts.all {
				break
			}
			if st != want {
				break
			}
			continue
		}
		if o.Status == "unknown" || o.Status == "error" {
			o.Status = st
		}
	}
	o.Ms = total.Milliseconds()
	_ = agree
}

func firstLines(s string, n int) string {
	ls := strings.Split(strings.TrimSpace(s), "\n")
	if len(ls) > n {
		ls = ls[:n]
	}
	return strings.Join(ls, " | ")
}

func SolveAll(obls []*Obligation, opts solveOpts, workers int) {
	var wg sync.WaitGroup
	ch := make(chan *Obligation)
	for i := 0; i < workers; i++ {
		wg.Add(1)
		go func() {
			defer wg.Done()
			for o := range ch {
				Solve(o, opts)
			}
		}()
	}
	for _, o := range obls {
		ch <- o
	}
	close(ch)
	wg.Wait()
}
