#!/bin/bash
# Reproduces the findings in findings.md.  Usage: bash /tmp/wt/H1-out/repro.sh
# Needs the CLI built at /tmp/wt/H1-out/yardl:
#   export GOFLAGS=-mod=mod GOPROXY=off; cd /tmp/wt/H1/tooling && go build -o /tmp/wt/H1-out/yardl ./cmd/yardl
Y=${YARDL:-/tmp/wt/H1-out/yardl}
ROOT=/tmp/wt/H1-out/cases
rm -rf "$ROOT"; mkdir -p "$ROOT"

strip() { sed 's/\x1b\[[0-9;]*m//g' | grep -v 'conda.cli' ; }

# mk <case> <v0-model> <v1-model> [extra lines for v1 _package.yml]
mk() {
  local d="$ROOT/$1"; mkdir -p "$d/v0" "$d/v1"
  printf 'namespace: T\n' > "$d/v0/_package.yml"
  printf '%s\n' "$2" > "$d/v0/m.yml"
  printf 'namespace: T\nversions:\n  v0: ../v0\ncpp:\n  sourcesOutputDir: ../out/cpp\n' > "$d/v1/_package.yml"
  printf '%s\n' "$3" > "$d/v1/m.yml"
}
# run <case> <subcommand>
run() {
  local d="$ROOT/$1/v1"
  ( cd "$d" && timeout 20 "$Y" "$2" 2>&1 | strip | head -${3:-6}; exit ${PIPESTATUS[0]} )
  echo "==> case $1: yardl $2 exit status $?"
}
alone() { # each version must be valid by itself
  for v in v0 v1; do
    local t; t=$(mktemp -d); cp "$ROOT/$1/$v/m.yml" "$t/"; printf 'namespace: T\n' > "$t/_package.yml"
    ( cd "$t" && timeout 20 "$Y" validate >/dev/null 2>&1 ); echo "    ($1/$v validated alone: exit $?)"; rm -rf "$t"
  done
}

echo "################ 1: false accept - aliases of one generic record with different type arguments"
mk 1 'R<T>: !record
  fields:
    x: T
AI: R<int>
AF: R<float>
Q: !protocol
  sequence:
    a: AF' 'R<T>: !record
  fields:
    x: T
AI: R<int>
AF: R<float>
Q: !protocol
  sequence:
    a: AI'
alone 1; run 1 validate; run 1 generate
echo "    Version::v0 cases generated for step a (expected a conversion or an error; found none):"
grep -c 'case Version::v0' "$ROOT/1/out/cpp/binary/protocols.cc"
# control: the same change without the aliases is rejected
mk 1-control 'R<T>: !record
  fields:
    x: T
Q: !protocol
  sequence:
    a: R<float>' 'R<T>: !record
  fields:
    x: T
Q: !protocol
  sequence:
    a: R<int>'
run 1-control validate

echo "################ 2: hang - exponential time on a diamond-shaped record graph (25 records)"
d="$ROOT/2/v1"; mkdir -p "$d"
python3 - "$d/m.yml" <<'EOF'
import sys
n=24
s="R0: !record\n  fields:\n    x: int\n"
for i in range(1,n+1):
    s+="R%d: !record\n  fields:\n    a: R%d\n    b: R%d\n"%(i,i-1,i-1)
s+="Q: !protocol\n  sequence:\n    a: R%d\n"%n
open(sys.argv[1],'w').write(s)
EOF
printf 'namespace: T\n' > "$d/_package.yml"
( cd "$d" && /usr/bin/time -f '    without versions: %es' timeout 20 "$Y" validate 2>&1 | strip; exit ${PIPESTATUS[0]} ); echo "==> case 2 (no versions): exit status $?"
printf 'namespace: T\nversions:\n  v0: .\n' > "$d/_package.yml"   # the model compared with itself
( cd "$d" && /usr/bin/time -f '    with versions: %es' timeout 20 "$Y" validate 2>&1 | strip; exit ${PIPESTATUS[0]} ); echo "==> case 2 (versions: {v0: .}): exit status $? (124 = killed by timeout 20)"

echo "################ 3: false reject - making a step/field optional (or a union) when its type is an alias of a vector/array"
mk 3 'X: float*
Q: !protocol
  sequence:
    a: X' 'X: float*
Q: !protocol
  sequence:
    a: X?'
alone 3; run 3 validate
mk 3-union 'X: float[]
Q: !protocol
  sequence:
    a: !stream
      items: X' 'X: float[]
Q: !protocol
  sequence:
    a: !stream
      items: [X, string]'
alone 3-union; run 3-union validate
mk 3-control 'R: !record
  fields:
    f: float*
X: R
Q: !protocol
  sequence:
    a: X' 'R: !record
  fields:
    f: float*
X: R
Q: !protocol
  sequence:
    a: X?'
run 3-control validate

echo "################ 4: generate succeeds but emits C++ that uses a record that no longer exists"
mk 4 'R: !record
  fields:
    x: int
Q: !protocol
  sequence:
    a: [R, int, string]' 'S: !record
  fields:
    y: string
Q: !protocol
  sequence:
    a: [S, int, string]'
alone 4; run 4 generate
echo "    uses of t::R in generated code:"; grep -rn 't::R\b' "$ROOT/4/out/cpp/binary/protocols.cc" | head -3
echo "    definitions of R / ReadR / WriteR in generated code: $(grep -rnE 'struct R\b|using R\b|void (Read|Write)R\b' "$ROOT/4/out/cpp" | wc -l)"

echo "################ 5: generate succeeds but emits std::array::resize for fixed-length vectors"
mk 5 'Q: !protocol
  sequence:
    a: int*3' 'Q: !protocol
  sequence:
    a: long*3'
alone 5; run 5 generate
grep -n -B1 'resize' "$ROOT/5/out/cpp/binary/protocols.cc"
if command -v g++ >/dev/null; then
  printf '#include <array>\n#include <cstdint>\nint main(){ std::array<int32_t,3> a = {}; std::array<int64_t,3> value = {}; a.resize(value.size()); }\n' > "$ROOT/5/snippet.cc"
  g++ -std=c++17 -fsyntax-only "$ROOT/5/snippet.cc" 2>&1 | head -3
fi

echo "################ 6: false reject - compatible change of a record used as map value / array element"
mk 6 'R: !record
  fields:
    x: int
Q: !protocol
  sequence:
    a: string->R' 'R: !record
  fields:
    x: int
    y: int?
Q: !protocol
  sequence:
    a: string->R'
alone 6; run 6 validate
mk 6-control 'R: !record
  fields:
    x: int
Q: !protocol
  sequence:
    a: R*' 'R: !record
  fields:
    x: int
    y: int?
Q: !protocol
  sequence:
    a: R*'
run 6-control validate

echo "################ 7: false reject - documented rename recipe with generic parameters in another order"
mk 7 'R<A, B>: !record
  fields:
    x: A
    y: B
Q: !protocol
  sequence:
    c: R<int, string>' 'S<B, A>: !record
  fields:
    x: A
    y: B
R<A, B>: S<B, A>
Q: !protocol
  sequence:
    c: R<int, string>'
alone 7; run 7 validate

echo "################ 8: version labels that are C++ keywords are accepted and written verbatim"
mk 8 'Q: !protocol
  sequence:
    a: int' 'Q: !protocol
  sequence:
    a: int'
printf 'namespace: T\nversions:\n  int: ../v0\n  class: ../v0\ncpp:\n  sourcesOutputDir: ../out/cpp\n' > "$ROOT/8/v1/_package.yml"
run 8 generate
grep -n -A4 'enum class Version' "$ROOT/8/out/cpp/protocols.h"

echo "################ 9: compatibility serializers are not emitted when the new model has no type definitions"
mk 9 'A: int
Q: !protocol
  sequence:
    a: A*' 'Q: !protocol
  sequence:
    a: long*'
alone 9; run 9 generate
echo "    uses:";        grep -n 'ReadA_v0' "$ROOT/9/out/cpp/binary/protocols.cc" | head -2
echo "    definitions of ReadA_v0: $(grep -rn 'void ReadA_v0' "$ROOT/9/out/cpp" | wc -l)"
