#!/usr/bin/env bash
# Reproductions for the findings in findings.md.
# Usage: bash /tmp/wt/H3-out/repro.sh        (needs /tmp/wt/H3-out/yardl, built from /tmp/wt/H3/tooling)
Y=${YARDL:-/tmp/wt/H3-out/yardl}
C=/tmp/wt/H3-out/cases
rm -rf "$C"; mkdir -p "$C"

# run <dir> <args...> : runs the CLI in <dir> under `timeout 20`, prints the first lines of output and the exit status
run() { local d=$1; shift; echo "\$ (cd ${d#$C/} && yardl $*)"; (cd "$d" && timeout 20 "$Y" "$@" 2>&1 | head -${LINES_MAX:-6}; echo "exit status: ${PIPESTATUS[0]}"); }
mk() { mkdir -p "$(dirname "$1")"; cat > "$1"; }
listing() { (cd "$1" && find . -type f | sort | head -${2:-12}); }

echo "=== 1: versions: !!map [a]  -> Go panic"
mk $C/1/p/_package.yml <<'EOF'
namespace: A
versions: !!map [a]
EOF
mk $C/1/p/m.yml <<'EOF'
X: int
EOF
run $C/1/p validate

echo; echo "=== 2: layered import graph (5 packages per layer, 9 layers, 46 packages) -> >20s / GBs of memory"
for l in 0 1 2 3 4 5 6 7 8; do for k in 0 1 2 3 4; do
  { echo "namespace: N${l}x${k}"; if [ $l -lt 8 ]; then echo "imports: [../p$((l+1))_0, ../p$((l+1))_1, ../p$((l+1))_2, ../p$((l+1))_3, ../p$((l+1))_4]"; fi; } | mk $C/2/p${l}_${k}/_package.yml
  echo "R: int" | mk $C/2/p${l}_${k}/m.yml
done; done
mk $C/2/root/_package.yml <<'EOF'
namespace: Root
imports: [../p0_0, ../p0_1, ../p0_2, ../p0_3, ../p0_4]
EOF
echo "R: int" | mk $C/2/root/m.yml
# the address-space limit only protects the machine; without it the process grows past 3 GB before the timeout kills it
( ulimit -v 6000000; LINES_MAX=3 run $C/2/root validate )

echo; echo "=== 3: the same package reached through a symlink -> 'namespace conflicts'"
mk $C/3/lib/_package.yml <<'EOF'
namespace: Lib
EOF
echo "L: int" | mk $C/3/lib/m.yml
ln -s lib $C/3/lib2
mk $C/3/b/_package.yml <<'EOF'
namespace: B
imports: [../lib2]
EOF
echo "BB: Lib.L" | mk $C/3/b/m.yml
mk $C/3/a/_package.yml <<'EOF'
namespace: A
imports: [../lib, ../b]
EOF
echo "AA: Lib.L" | mk $C/3/a/m.yml
run $C/3/a validate

echo; echo "=== 4: importing a sub-directory: its model files are ALSO parsed into the importer's namespace"
mk $C/4/a/_package.yml <<'EOF'
namespace: A
imports: [./lib]
json: {outputDir: ../out}
EOF
echo "AA: Lib.L" | mk $C/4/a/m.yml
mk $C/4/a/lib/_package.yml <<'EOF'
namespace: Lib
EOF
echo "L: int" | mk $C/4/a/lib/m.yml
run $C/4/a generate
echo "namespaces and type names in model.json (L appears in Lib and again in A):"
grep -n '"name"' $C/4/out/model.json
echo "-- 4b: same with a previous version kept in a sub-directory"
mk $C/4b/a/_package.yml <<'EOF'
namespace: A
versions: {v1: ./v1}
EOF
echo "AA: int" | mk $C/4b/a/m.yml
mk $C/4b/a/v1/_package.yml <<'EOF'
namespace: A
EOF
echo "AA: int" | mk $C/4b/a/v1/m.yml
run $C/4b/a validate

echo; echo "=== 5: -c overrides are not validated: invalid namespace accepted, empty outputDir leaves partial output"
for n in 5a 5b 5c; do
mk $C/$n/a/_package.yml <<'EOF'
namespace: A
cpp: {sourcesOutputDir: ../out/cpp}
python: {outputDir: ../out/py}
json: {outputDir: ../out/json}
EOF
echo "AA: int" | mk $C/$n/a/m.yml
done
run $C/5a/a generate -c namespace=bad-name
echo "python output:"; ls $C/5a/out/py
run $C/5b/a generate -c namespace=
grep -n '^namespace' $C/5b/out/cpp/types.h
run $C/5c/a generate -c json.outputDir=
echo "files written although the command failed: $(find $C/5c/out -type f | wc -l)"

echo; echo "=== 6: python.outputDir is an existing file: C++ output is written, then the command fails"
mk $C/6/a/_package.yml <<'EOF'
namespace: A
cpp: {sourcesOutputDir: ../cpp}
python: {outputDir: ../py}
EOF
echo "AA: int" | mk $C/6/a/m.yml
echo "i am a file" > $C/6/py
run $C/6/a generate
echo "files written although the command failed: $(find $C/6/cpp -type f | wc -l)"

echo; echo "=== 7: whether a package graph is accepted depends on the ORDER of the imports list"
for o in first last; do
  for i in 1 2 3 4 5 6 7 8 9; do
    { echo "namespace: N$i"; if [ $i -lt 9 ]; then echo "imports: [../p$((i+1))]"; else echo "imports: [../x]"; fi; } | mk $C/7$o/p$i/_package.yml
    echo "R$i: int" | mk $C/7$o/p$i/m.yml
  done
  echo "namespace: X" | mk $C/7$o/x/_package.yml; echo "XX: int" | mk $C/7$o/x/m.yml
  echo "R0: int" | mk $C/7$o/p0/m.yml
done
printf 'namespace: N0\nimports: [../x, ../p1]\n' | mk $C/7first/p0/_package.yml
printf 'namespace: N0\nimports: [../p1, ../x]\n' | mk $C/7last/p0/_package.yml
run $C/7first/p0 validate
run $C/7last/p0 validate

echo; echo "=== 8: init creates packages that validate rejects, and leaves a half-initialised directory"
mkdir -p $C/8a $C/8b/model
run $C/8a init 123
run $C/8a/model validate
echo "X: int" > $C/8b/model/model.yml
run $C/8b init foo
ls $C/8b/model
run $C/8b init foo

echo; echo "=== 9: HOME unset/unusable: every command dies, even --help and a package with local imports only"
mk $C/9/a/_package.yml <<'EOF'
namespace: A
EOF
echo "AA: int" | mk $C/9/a/m.yml
echo "\$ env -u HOME yardl validate";  (cd $C/9/a && env -u HOME "$Y" validate 2>&1 | head -3; echo "exit status: ${PIPESTATUS[0]}")
echo "\$ HOME=/proc/nope yardl --help"; (cd $C/9/a && HOME=/proc/nope "$Y" --help 2>&1 | head -3; echo "exit status: ${PIPESTATUS[0]}")

echo; echo "=== 10: model file 'X: !!seq foo' -> unbounded recursion, fatal stack overflow"
echo "namespace: A" | mk $C/10/a/_package.yml
echo "X: !!seq foo" | mk $C/10/a/m.yml
LINES_MAX=4 run $C/10/a validate

echo; echo "=== 11: 26 nested generic arguments -> validation takes 2^n steps (timeout)"
echo "namespace: A" | mk $C/11/a/_package.yml
python3 - > $C/11/a/m.yml <<'EOF'
n=26
print("G<T>: T")
print("X: " + "G<"*n + "int" + ">"*n)
EOF
run $C/11/a validate

echo; echo "=== 12: summary claims output for disabled targets"
mk $C/12/a/_package.yml <<'EOF'
namespace: A
json: {outputDir: ../json}
matlab: {outputDir: ../ml, disabled: true}
EOF
echo "AA: int" | mk $C/12/a/m.yml
run $C/12/a generate
ls -d $C/12/ml 2>&1 | sed "s|$C/||"

echo; echo "=== 13: diagnostics without file name and/or line number"
printf 'namespace: A\nimports: 5\n' | mk $C/13a/a/_package.yml; echo "AA: int" | mk $C/13a/a/m.yml
run $C/13a/a validate
printf 'namespace: A\nversions:\n  v1: .\n  v1: .\n' | mk $C/13b/a/_package.yml; echo "AA: int" | mk $C/13b/a/m.yml
run $C/13b/a validate
printf 'namespace: A\nimports: [../nope]\n' | mk $C/13c/a/_package.yml; echo "AA: int" | mk $C/13c/a/m.yml
run $C/13c/a validate

echo; echo "=== 14: absolute outputDir is silently re-rooted under the package directory"
printf 'namespace: A\njson: {outputDir: %s}\n' "$C/14/OUT" | mk $C/14/a/_package.yml; echo "AA: int" | mk $C/14/a/m.yml
run $C/14/a generate
ls -d $C/14/OUT 2>&1 | sed "s|$C/||"
