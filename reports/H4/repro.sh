#!/bin/bash
# Reproduces the front-end findings (full write-up is in the agent report).  Usage: bash /tmp/wt/H4-out/repro.sh
#
# Case index (observed -> expected):
#  01  G<G<...<int>>> nested 26 deep: killed by timeout (time doubles per level) -> should be instant   [resolveTypes / convertGenericReferences visit children twice]
#  02  !flags list with 40000 names: ~20 s, ~2 GB                          -> prompt rejection                [UnmarshalEnumValues SetBit(i), validateEnums .String()]
#  03  -s / -v / -b on string, vector, bool accepted                        -> "operator not defined"          [resolveComputedFields: no *UnaryExpression case]
#  04  d[] on int[] accepted, Python "self.d[]" SyntaxError                 -> reject                          [resolveComputedFields SubscriptExpression/*Array]
#  04b v[-1], a[-1,0] on fixed sizes accepted (v[3] is rejected)            -> reject                          [same]
#  05  !union {int32: int, float32: string} next to [int, float] accepted   -> "combination of tags ... already in use" (05c shows the rule) [validateUnionCases tagTypeMap]
#  06  enum without values accepted, Python IndentationError; 06b scalar body ignored -> reject              [EnumDefinition.UnmarshalYAML / validateEnums]
#  07  field aBC + computed field aBc, steps aBC + aBc accepted (both a_bc) -> reject like 07c                [validateRecordFieldNames / validateProtocolSequenceNames]
#  08  duplicate keys (fields, items, length, keys, base, values) accepted, merged / last wins -> reject     [hand-written Content walkers in yaml.go]
#  09  field "asset" unusable in expressions: unexpected token "as"         -> accept                          [expressionLexer rule order]
#  10  "b: *t" YAML alias -> unrecognized type kind '' ; 10b "fields: *f" is accepted -> accept both         [UnmarshalTypeYAML & co. switch on the alias node's empty tag]
#  11  m[1] on int->int: "incorrect map lookup argument type"               -> accept (literal converts)       [resolveComputedFields *Map case]
#  11/11b error text ":1:3: ..." has no file and a wrong position                                              [visitor.go never visits *SubscriptArgument]
#  12a int*010 = 8 elements but int[010] = 10; 12b int*0x10 ok, 12c int[0x10] "integer out of range", 12d dimensions: [0x10] ok   [parser.parseUint64 base 10 vs base 0]
#  13a enum {true: 0, null: 1} accepted, 13b [true, null] and 13c {true: } rejected                           [UnmarshalEnumValues: && instead of ||]
#  14a/14b "model.yml: math/big: cannot unmarshal ..." without line/column                                   [UnmarshalVectorYAML / UnmarshalEnumValues return raw error]
#  15  "dimension name 'X' must match the format ^[A-Z]..." prints the wrong regex                            [validateArrayAndVectorDimensions]
# Every case is written to /tmp/wt/H4-out/cases/<n>/ and the CLI is run in that directory.
OUT=/tmp/wt/H4-out
Y=$OUT/yardl
if [ ! -x "$Y" ]; then
  (export GOFLAGS=-mod=mod GOPROXY=off; cd /tmp/wt/H4/tooling && go build -o "$Y" ./cmd/yardl) || exit 2
fi
rm -rf $OUT/cases; mkdir -p $OUT/cases

# mk <case> [file]   : model text on stdin
mk() {
  d=$OUT/cases/$1; mkdir -p $d
  cat > $d/${2:-model.yml}
  [ -f $d/_package.yml ] || printf 'namespace: Test\npython:\n  outputDir: ./out/python\njson:\n  outputDir: ./out/json\n' > $d/_package.yml
}
# go <case> <validate|generate> [timeout-seconds]
go_() {
  echo "=== case $1: yardl $2"
  ( cd $OUT/cases/$1 && timeout ${3:-20} $Y $2 2>&1 | sed 's/\x1b\[[0-9;]*m//g' | cut -c1-300 | head -8; echo "exit status: ${PIPESTATUS[0]}" )
}

############ 1. hangs / resource exhaustion
# 01: nesting depth 26 of a generic type argument: run time doubles with every level
python3 - <<'EOF'
import os
d='/tmp/wt/H4-out/cases/01'; os.makedirs(d,exist_ok=True)
n=26
open(d+'/model.yml','w').write('G<T>: !record\n  fields:\n    x: T\nR: !record\n  fields:\n    a: '+'G<'*n+'int'+'>'*n+'\n')
open(d+'/_package.yml','w').write('namespace: Test\n')
for n in (16,18,20):
    d='/tmp/wt/H4-out/cases/01_%d'%n; os.makedirs(d,exist_ok=True)
    open(d+'/model.yml','w').write('G<T>: !record\n  fields:\n    x: T\nR: !record\n  fields:\n    a: '+'G<'*n+'int'+'>'*n+'\n')
    open(d+'/_package.yml','w').write('namespace: Test\n')
EOF
for n in 16 18 20; do /usr/bin/time -f "  depth $n: %es" bash -c "cd $OUT/cases/01_$n && $Y validate"; done
go_ 01 validate 20      # exit status 124 = killed by timeout

# 02: 40000 symbols in the list form of !flags (280 KB of input): ~18 s and ~2 GB
python3 - <<'EOF'
import os
d='/tmp/wt/H4-out/cases/02'; os.makedirs(d,exist_ok=True)
open(d+'/model.yml','w').write('E: !flags\n  values: ['+','.join('a%d'%i for i in range(40000))+']\n')
open(d+'/_package.yml','w').write('namespace: Test\n')
EOF
echo "=== case 02: yardl validate (time, peak memory)"
( cd $OUT/cases/02 && ulimit -v 8000000 && /usr/bin/time -f "  %es %MKB peak" timeout 60 $Y validate 2>&1 | cut -c1-160 | tail -2; echo "exit status: ${PIPESTATUS[0]}" )

############ 2. invalid models that are accepted
mk 03 <<'EOF'
R: !record
  fields:
    s: string
    v: int*
    b: bool
  computedFields:
    negS: -s
    negV: -v
    negB: -b
EOF
go_ 03 generate; grep -n -A1 "def neg" $OUT/cases/03/out/python/test/types.py

mk 04 <<'EOF'
R: !record
  fields:
    d: int[]
  computedFields:
    z: d[]
EOF
go_ 04 generate; grep -n "self.d\[\]" $OUT/cases/04/out/python/test/types.py; python3 -m py_compile $OUT/cases/04/out/python/test/types.py 2>&1 | tail -1

mk 04b <<'EOF'
R: !record
  fields:
    v: int*3
    a: int[2,3]
  computedFields:
    tooBig: v[3]
    negV: v[-1]
    negA: a[-1, 0]
EOF
go_ 04b validate
sed -i '/tooBig/d' $OUT/cases/04b/model.yml; go_ 04b validate

mk 05 <<'EOF'
R: !record
  fields:
    a: !union
      int32: int
      float32: string
    b: [int, float]
EOF
go_ 05 generate; grep -n "^class Int32OrFloat32\|Float32: typing\|    [ab]: Int32" $OUT/cases/05/out/python/test/types.py
mk 05c <<'EOF'
R: !record
  fields:
    a: !union
      x: int
      y: string
    b: !union
      x: int
      y: float
EOF
go_ 05c validate

mk 06 <<'EOF'
E: !enum
  values: []
EOF
go_ 06 generate; python3 -m py_compile $OUT/cases/06/out/python/test/types.py 2>&1 | tail -1
mk 06b <<'EOF'
E: !flags some text that is ignored
EOF
go_ 06b validate

mk 07 <<'EOF'
R: !record
  fields:
    aBC: int
  computedFields:
    aBc: 1
P: !protocol
  sequence:
    aBC: int
    aBc: float
EOF
go_ 07 generate; grep -n "def a_bc\|a_bc: yardl" $OUT/cases/07/out/python/test/types.py; grep -n "def write_a_bc" $OUT/cases/07/out/python/test/protocols.py
mk 07c <<'EOF'
R: !record
  fields:
    aBC: int
    aBc: int
EOF
go_ 07c validate

mk 08 <<'EOF'
R: !record
  fields:
    a: !vector
      items: int
      items: string
      length: 3
      length: 4
  fields:
    b: !map
      keys: int
      keys: string
      values: int
E: !enum
  base: uint8
  base: int64
  values: [a]
  values: [b, c]
EOF
go_ 08 generate; grep -n '"name"\|"items"\|"length"\|"keys"\|"base"\|"symbol"' $OUT/cases/08/out/json/model.json

############ 3. valid models that are rejected
mk 09 <<'EOF'
R: !record
  fields:
    asset: int
  computedFields:
    c: asset
EOF
go_ 09 validate

mk 10 <<'EOF'
R: !record
  fields:
    a: &t int
    b: *t
EOF
go_ 10 validate
mk 10b <<'EOF'
R: !record
  fields: &f
    a: int
S: !record
  fields: *f
EOF
go_ 10b validate

mk 11 <<'EOF'
R: !record
  fields:
    m: int->int
  computedFields:
    c: m[1]
EOF
go_ 11 validate
mk 11b <<'EOF'
R: !record
  fields:
    v: int*3
  computedFields:
    c: v[3]
EOF
go_ 11b validate

############ 4. spelling-dependent verdicts / output
mk 12a <<'EOF'
R: !record
  fields:
    a: int*010
    b: int[010]
EOF
go_ 12a generate; grep -n '"length"' $OUT/cases/12a/out/json/model.json
mk 12b <<'EOF'
R: !record
  fields:
    a: int*0x10
EOF
go_ 12b validate
mk 12c <<'EOF'
R: !record
  fields:
    a: int[0x10]
EOF
go_ 12c validate
mk 12d <<'EOF'
R: !record
  fields:
    a: !array
      items: int
      dimensions: [0x10]
EOF
go_ 12d validate

mk 13a <<'EOF'
E: !enum
  values:
    true: 0
    null: 1
EOF
go_ 13a validate
mk 13b <<'EOF'
E: !enum
  values: [true, null]
EOF
go_ 13b validate
mk 13c <<'EOF'
E: !enum
  values:
    true:
EOF
go_ 13c validate

############ messages without a file name or line number
mk 14a <<'EOF'
R: !record
  fields:
    a: !vector
      items: int
      length: three
EOF
go_ 14a validate
mk 14b <<'EOF'
E: !enum
  values:
    a: 1.5
EOF
go_ 14b validate
mk 15 <<'EOF'
R: !record
  fields:
    a: int[X]
EOF
go_ 15 validate
