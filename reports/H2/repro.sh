#!/bin/bash
# Reproduces the findings listed in findings.md.
# Recreates every package under /tmp/wt/H2-out/cases/<n>/model, runs the CLI and prints the status of each case.
# Needs: /tmp/wt/H2-out/yardl  (cd /tmp/wt/H2/tooling && GOFLAGS=-mod=mod GOPROXY=off go build -o /tmp/wt/H2-out/yardl ./cmd/yardl)
OUT=/tmp/wt/H2-out
Y=$OUT/yardl
PY=/opt/veriftools/pyvenv/bin/python
CASES=$OUT/cases
rm -rf $CASES; mkdir -p $CASES

# mk <case> [namespace]  : model text on stdin; all four targets enabled with default options (HDF5, NDJson on)
mk() {
  n=$1; mkdir -p $CASES/$n/model
  cat > $CASES/$n/model/_package.yml <<EOF
namespace: ${2:-Ns}
cpp:
  sourcesOutputDir: ../out/cpp
python:
  outputDir: ../out/py
matlab:
  outputDir: ../out/matlab
json:
  outputDir: ../out/json
EOF
  cat > $CASES/$n/model/m.yml
}

# stub of the runtime header so that clang++ -fsyntax-only can look at a generated types.h on its own
mkstub() {
  d=$1; mkdir -p $d/yardl
  cat > $d/yardl/yardl.h <<'EOF'
#pragma once
#include <cstdint>
#include <string>
#include <optional>
#include <variant>
#include <vector>
#include <array>
#include <complex>
#include <unordered_map>
#include <utility>
#include <stdexcept>
namespace yardl { using Size = uint64_t; }
EOF
}

# run <case> : validate, generate, py_compile + import
run() {
  n=$1; d=$CASES/$n
  echo "=================== case $n"
  ( cd $d/model
    timeout 60 $Y validate > $d/validate.log 2>&1; echo "validate exit=$?"
    timeout 60 $Y generate > $d/generate.log 2>&1; rc=$?; echo "generate exit=$rc"
    if [ $rc -ne 0 ]; then grep -v WRN $d/generate.log | head -8; fi )
  if [ -d $d/out/py ]; then
    bad=0
    for f in $(find $d/out/py -name '*.py'); do python3 -m py_compile $f > $d/pyc.log 2>&1 || { bad=1; echo "py_compile FAILED: $f"; grep -v '^  File' $d/pyc.log | head -4; }; done
    echo "py_compile failed=$bad"
    pkg=$(ls -d $d/out/py/*/ | head -1 | xargs basename)
    ( cd $d/out/py && $PY -c "import sys; sys.path.insert(0,'.'); import $pkg" > $d/import.log 2>&1; echo "python import exit=$?"; tail -3 $d/import.log )
  fi
}

# cxx <case> [file] : syntax check of the generated header against the stub runtime header
cxx() {
  n=$1; f=${2:-types.h}; d=$CASES/$n/cxx; mkstub $d
  cp $CASES/$n/out/cpp/*.h $d/ 2>/dev/null
  ( cd $d && clang++-14 -std=c++17 -fsyntax-only -x c++ $f 2>&1 | grep -E "error" | head -6 )
}

########## (1) Go panics of the generators

# P1: dimensionIndex()/size() with a run-time dimension name on an array whose dimensions are only partly named
mk P1 <<'EOF'
R: !record
  fields:
    arr: int[x:2, 3]
    name: string
  computedFields:
    idx: dimensionIndex(arr, name)
P: !protocol
  sequence:
    a: R
EOF
run P1
( cd $CASES/P1/model
  echo "-- python only:"; $Y generate -c cpp.disabled=true -c matlab.disabled=true 2>&1 | grep -A5 '^panic' | head -7
  echo "-- matlab only:"; $Y generate -c cpp.disabled=true -c python.disabled=true 2>&1 | grep -A5 '^panic' | head -7 )

# P2: 'as' cast to an alias of a primitive type
mk P2 <<'EOF'
MyFloat: float
R: !record
  fields:
    a: int
  computedFields:
    f: a as MyFloat
P: !protocol
  sequence:
    a: R
EOF
run P2
( cd $CASES/P2/model
  echo "-- matlab only:"; $Y generate -c cpp.disabled=true -c python.disabled=true 2>&1 | grep -A5 '^panic' | head -7 )

########## (2) generated Python that does not compile / import

# Y1a: alias whose type contains a union below the top level (map of map of union)
mk Y1a <<'EOF'
M: !map
  keys: string
  values: !map
    keys: string
    values: [int, string]
P: !protocol
  sequence:
    a: M
EOF
run Y1a
grep -n "^class M\|^M = \|Int32OrString" $CASES/Y1a/out/py/ns/types.py $CASES/Y1a/out/py/ns/__init__.py

# Y1b: alias of a generic instantiated with two different unions
mk Y1b <<'EOF'
T2<A,B>: !record
  fields:
    a: A
    b: B
X: !generic
  name: T2
  args:
    - [int, string]
    - [float, string]
P: !protocol
  sequence:
    a: X
EOF
run Y1b

# Y2: generic alias that does not pass its parameters 1:1 to a generic record
mk Y2 <<'EOF'
G<A,B>: !record
  fields:
    a: A
    b: B
Al<T>: G<T, string>
P: !protocol
  sequence:
    a: Al<int>
EOF
run Y2
grep -n "^Al = " $CASES/Y2/out/py/ns/types.py

# Y3: type parameter used only inside the item type of an array
mk Y3 <<'EOF'
R<T>: !record
  fields:
    a: !array
      items: T?
P: !protocol
  sequence:
    a: R<int>
EOF
run Y3

# Y4: field named 'self'
mk Y4 <<'EOF'
R: !record
  fields:
    self: int
P: !protocol
  sequence:
    a: R
EOF
run Y4

# Y5: union tag 'none'
mk Y5 <<'EOF'
U: !union
  none: int
  s: string
P: !protocol
  sequence:
    a: U
EOF
run Y5

# Y6a/b/c: doc comments that are not escaped in the docstring
mk Y6a <<'EOF'
R: !record
  fields:
    # the value may contain """ triple quotes
    a: int
P: !protocol
  sequence:
    a: R
EOF
run Y6a
mk Y6b <<'EOF'
# Files live under C:\users\data
R: !record
  fields:
    a: int
P: !protocol
  sequence:
    a: R
EOF
run Y6b
# Y6c also is finding C4 (C++ line comment that ends with a backslash)
mk Y6c <<'EOF'
R: !record
  fields:
    # separator is the backslash \
    a: int
P: !protocol
  sequence:
    a: R
EOF
run Y6c
echo "-- C++ (finding C4):"; sed -n 13,18p $CASES/Y6c/out/cpp/types.h; cxx Y6c

# Y7: a type with the same name as a type parameter of another type
mk Y7 <<'EOF'
T: int
G<T>: !record
  fields:
    a: T
P: !protocol
  sequence:
    a: G<string>
    b: T
EOF
run Y7
grep -n "^T = \|^class G" $CASES/Y7/out/py/ns/types.py

# Y8: switch over a field whose type is a named union: imports, but the computed field raises NameError
mk Y8 <<'EOF'
U: [int, string]
R: !record
  fields:
    a: U
  computedFields:
    s:
      !switch a:
        int i: i
        string: 0
P: !protocol
  sequence:
    a: R
EOF
run Y8
( cd $CASES/Y8/out/py && $PY -c "
import sys; sys.path.insert(0,'.')
import ns
print(ns.R(a=ns.U.Int32(3)).s())" 2>&1 | tail -2 )

########## (3) generated C++ / MATLAB that is certainly invalid

# C1: type of a computed field of a generic record is taken from the first instantiation
mk C1 <<'EOF'
G<T>: !record
  fields:
    a: T
  computedFields:
    c: a
R: !record
  fields:
    g: G<int>
    h: G<string>
  computedFields:
    x: g.c
    y: h.c
P: !protocol
  sequence:
    a: R
EOF
run C1
grep -n " Y() const" -A2 $CASES/C1/out/cpp/types.h; grep -n "def y" -A1 $CASES/C1/out/py/ns/types.py; cxx C1

# C2: switch over a non-union / optional target: lambda without capture, type pattern returns the target; C3: field named 'other'
mk C2 <<'EOF'
R: !record
  fields:
    i: int
    k: int
    opt: int?
  computedFields:
    a:
      !switch i:
        int: "'hello'"
    c:
      !switch opt:
        int v: v + k
        null: k
    d:
      !switch i:
        int v: v + k
P: !protocol
  sequence:
    a: R
EOF
run C2
sed -n '/A() const/,/^  bool operator==/p' $CASES/C2/out/cpp/types.h; cxx C2
mk C3 <<'EOF'
R: !record
  fields:
    other: int
P: !protocol
  sequence:
    a: R
EOF
run C3
grep -n "operator==" -A2 $CASES/C3/out/cpp/types.h | head -4; cxx C3

# C5: MATLAB string literal
mk C5 <<'EOF'
R: !record
  fields:
    a: int
  computedFields:
    s: "'say \"hi\"'"
P: !protocol
  sequence:
    a: R
EOF
run C5
grep -n 'say' $CASES/C5/out/matlab/+ns/R.m

# C6: names that collide with a macro / with generated class names
mk C6a <<'EOF'
"NULL": !record
  fields:
    a: int
P: !protocol
  sequence:
    a: "NULL"
EOF
run C6a
grep -n "struct NULL" $CASES/C6a/out/cpp/types.h; cxx C6a
mk C6b <<'EOF'
PWriterBase: !record
  fields:
    a: int
P: !protocol
  sequence:
    a: PWriterBase
EOF
run C6b
cxx C6b protocols.h

# C7: members that differ only in the spelling that snake_casing removes
mk C7 <<'EOF'
R: !record
  fields:
    fooBar: int
  computedFields:
    fooBAR: fooBar + 1
P: !protocol
  sequence:
    fooBar: R
    fooBAR: R
EOF
run C7
grep -n "def write_foo_bar\|def foo_bar\|    foo_bar:" $CASES/C7/out/py/ns/protocols.py $CASES/C7/out/py/ns/types.py
grep -n "function write_foo_bar\|function res = foo_bar\|^    foo_bar" $CASES/C7/out/matlab/+ns/PWriterBase.m $CASES/C7/out/matlab/+ns/R.m
