#!/bin/bash
# confirm_seed.sh <outdir> <worktree> <name>: confirms a seeded change (demo passes without, fails with; build+tests pass with)
# and files it under /verif/seeded/<name>/.
out=$1; wt=$2; name=$3
export GOFLAGS=-mod=mod GOPROXY=off
cd $wt && git checkout -q -- . && git clean -fdq
how=$(python3 -c "import json;print(json.load(open('$out/meta.json')).get('how_to_run_demo',''))" 2>/dev/null)
rundemo() {
  if [ -f $out/demo.sh ]; then (cd $wt && bash $out/demo.sh $wt >/tmp/confirm_$name.log 2>&1); return $?; fi
  # go test demo: copy *_test.go into the directory named in meta (first tooling/... path found)
  dir=$(echo "$how" | grep -o 'tooling/[A-Za-z0-9_/]*' | head -1)
  [ -d $wt/$dir ] || dir=$(dirname $dir)
  tf=$(ls $out/*_test.go | head -1)
  cp $tf $wt/$dir/zz_seed_demo_test.go
  (cd $wt/$dir && go test -vet=off -count=1 -run . . >/tmp/confirm_$name.log 2>&1); rc=$?
  rm -f $wt/$dir/zz_seed_demo_test.go
  return $rc
}
rundemo; clean_rc=$?
git apply $out/patch.diff || { echo "$name: patch does not apply"; exit 1; }
(cd tooling && go build ./... >/dev/null 2>&1); build_rc=$?
(cd tooling && go test -vet=off -count=1 ./... >/tmp/confirm_${name}_tests.log 2>&1); test_rc=$?
rundemo; mut_rc=$?
git checkout -q -- . && git clean -fdq
echo "$name: demo_clean=$clean_rc build=$build_rc tests=$test_rc demo_mutant=$mut_rc"
if [ $clean_rc = 0 ] && [ $build_rc = 0 ] && [ $test_rc = 0 ] && [ $mut_rc != 0 ]; then
  mkdir -p /verif/seeded/$name
  cp $out/patch.diff /verif/seeded/$name/
  for f in $out/*; do
    b=$(basename $f)
    case $b in patch.diff|yardl|*.o|*.log) continue;; esac
    if [ -d $f ]; then cp -r $f /verif/seeded/$name/; elif [ $(stat -c %s $f) -lt 2000000 ]; then cp $f /verif/seeded/$name/; fi
  done
  python3 - <<PY
import json
p='/verif/seeded/$name/meta.json'
m=json.load(open(p))
m['confirmed_by_main']={'demo_clean_exit':$clean_rc,'build_with_patch':$build_rc,'tests_with_patch':$test_rc,'demo_with_patch_exit':$mut_rc,'ran':'tools/confirm_seed.sh in a scratch worktree of /repo'}
json.dump(m,open(p,'w'),indent=1)
PY
  echo "$name: CONFIRMED"
else
  echo "$name: NOT confirmed (see /tmp/confirm_$name.log)"
fi
