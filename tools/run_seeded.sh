#!/bin/bash
# run_seeded.sh [name...]: applies each seeded change to /repo, runs the check of its property (and any extra
# properties given in SEED_PROPS), reverts, and prints whether a VIOLATION was reported.
# evidence and replay files written while a seeded change is applied describe that changed tree: keep the ones of
# the unchanged tree
keep=$(mktemp -d /tmp/govc-evidence-keep.XXXXXX)
cp -a /verif/evidence/. $keep/ 2>/dev/null
trap 'rm -rf /verif/evidence; mkdir -p /verif/evidence; cp -a $keep/. /verif/evidence/; rm -rf $keep' EXIT
cd /verif/seeded
names="$@"; [ -z "$names" ] && names=$(ls)
claimed=$(python3 -c "import json;print(' '.join(c['property_id'] for c in json.load(open('/verif/MANIFEST.json'))['checks']))")
for n in $names; do
  prop=$(python3 -c "import json;print(json.load(open('/verif/seeded/$n/meta.json'))['property'])")
  props="$prop $SEED_PROPS"
  (cd /repo && git apply /verif/seeded/$n/patch.diff) || { echo "$n: patch does not apply"; continue; }
  res=""
  for p in $props; do
    if echo " $claimed " | grep -q " $p "; then
      out=$(/verif/bin/govc check -p $p 2>&1); rc=$?
      nv=$(echo "$out" | grep -c '^VIOLATION')
      res="$res $p:exit=$rc,violations=$nv"
      echo "$out" | grep '^VIOLATION' | head -3 | sed "s/^/    /"
    else
      res="$res $p:not-claimed"
    fi
  done
  (cd /repo && git checkout -q -- . )
  echo "$n:$res"
done
