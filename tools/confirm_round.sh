#!/bin/bash
# confirm_round.sh <round-prefix> <Cxx>...: confirms changes A and B written by the sub-agent of each property
# (in /tmp/wt/<prefix>-<Cxx>-out/{A,B}) and files the confirmed ones under the next free letters of /verif/seeded.
pre=$1; shift
for p in "$@"; do
  for x in A B; do
    out=/tmp/wt/$pre-$p-out/$x
    [ -f $out/patch.diff ] || { echo "$p/$x: no patch"; continue; }
    for l in a b c d e f g h i j k l m n; do [ -d /verif/seeded/$p-$l ] || break; done
    /verif/tools/confirm_seed.sh $out /tmp/wt/$pre-$p $p-$l 2>&1 | tail -2
  done
done
