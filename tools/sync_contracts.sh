#!/bin/bash
# Copies the contract mirror (/verif/contracts/repo) into /repo/tooling and commits it there as a hook commit.
set -e
cd /verif/contracts/repo
find . -name '*_verif.go' | while read f; do
  mkdir -p "/repo/tooling/$(dirname "$f")"
  cp "$f" "/repo/tooling/$f"
done
cd /repo
git add -A tooling
if ! git diff --cached --quiet; then
  git commit -qm "verif: contract files (build tag verif, comments only)" 
  echo "hook commit $(git log --format=%h -n1)"
fi
