#!/bin/bash
# commit_fix.sh <message-file>: runs the whole test suite of /repo/tooling and commits the staged+unstaged changes of
# tooling/ only if every package passes. Prints the new commit hash.
export GOFLAGS=-mod=mod GOPROXY=off
cd /repo/tooling || exit 1
if [ -n "$(gofmt -l internal pkg cmd 2>/dev/null)" ]; then echo "gofmt: $(gofmt -l internal pkg cmd)"; exit 1; fi
out=$(go test -vet=off -count=1 ./... 2>&1); rc=$?
if [ $rc != 0 ] || echo "$out" | grep -q '^FAIL\|^--- FAIL\|panic:'; then echo "$out" | grep -v '"level"' | grep -v 'no test files' | tail -30; echo "TESTS FAILED: not committed"; exit 1; fi
cd /repo && git add -A tooling && git commit -q -F "$1" && git log --format=%h -n1
