#!/bin/bash
# run_seeded_wt.sh [-j N] [name...]: like run_seeded.sh, but each seeded change is applied in its own scratch worktree
# of /repo (under /tmp/seedrun) and checked there with GOVC_REPO / GOVC_OUT, so /repo and /verif/evidence are never
# touched and several changes can be checked at once. The registered checks themselves always run against /repo; this
# is the development loop only. Prints one line per change: name, property, exit status, number of VIOLATION lines.
J=3
if [ "$1" = "-j" ]; then J=$2; shift 2; fi
names="$@"; [ -z "$names" ] && names=$(ls /verif/seeded)
export GOFLAGS=-mod=mod GOPROXY=off
mkdir -p /tmp/seedrun
one() {
  n=$1
  prop=$(python3 -c "import json;print(json.load(open('/verif/seeded/$n/meta.json'))['property'])")
  wt=/tmp/seedrun/$n
  git -C /repo worktree remove --force $wt >/dev/null 2>&1
  git -C /repo worktree add --detach -f $wt HEAD >/dev/null 2>&1 || { echo "$n: no worktree"; return; }
  if ! git -C $wt apply /verif/seeded/$n/patch.diff 2>/dev/null; then
    echo "$n: patch does not apply"; git -C /repo worktree remove --force $wt; return
  fi
  res=""
  for p in $prop $SEED_PROPS; do
    out=$(GOVC_REPO=$wt/tooling GOVC_OUT=$wt-out /verif/bin/govc check -p $p 2>&1); rc=$?
    nv=$(echo "$out" | grep -c '^VIOLATION')
    res="$res $p:exit=$rc,violations=$nv"
    echo "$out" | grep -E '^VIOLATION|^VACUOUS' | head -3 | sed "s/^/    [$n] /"
    echo "$out" | grep -E 'MISSING|OUT-OF-SUBSET|UNBOUND' | head -3 | sed "s/^/    [$n] /"
  done
  git -C /repo worktree remove --force $wt >/dev/null 2>&1; rm -rf $wt-out
  echo "$n:$res"
}
export -f one
echo $names | tr ' ' '\n' | xargs -P $J -I{} bash -c 'one {}'
git -C /repo worktree prune
