#!/usr/bin/env python3
"""Regenerates /verif/MANIFEST.json from tools/manifest_table.json (one entry per claimed property)."""
import json, os, subprocess
root = os.path.dirname(os.path.dirname(os.path.abspath(__file__)))
props = [json.loads(l) for l in open(os.path.join(root, 'properties.jsonl'))]
table = json.load(open(os.path.join(root, 'tools', 'manifest_table.json')))
claimed = table['claimed']
checks = []
for p in props:
    pid = p['id']
    if pid not in claimed:
        continue
    c = claimed[pid]
    checks.append({
        "property_id": pid,
        "quick_cmd": f"/verif/bin/govc check -p {pid} -tier quick",
        "thorough_cmd": f"/verif/bin/govc check -p {pid} -tier thorough",
        "evidence_file": f"/verif/evidence/{pid}.json",
        "replay_cmd_template": "/verif/bin/govc replay {path}",
        "engine": "govc",
        "level_claimed": {"category": "proof", "text": c['level_text'], "design_ref": c.get('design_ref', 'DESIGN.md section 7')},
        "level_note": c['level_note'],
        "technique": c.get('technique', 'contract-based deductive verification: weakest-precondition style VCs generated from go/ssa of the real functions, contracts as structured comments, discharged by z3/cvc5'),
    })
na = [{"property_id": p['id'], "reason": table['not_applicable'].get(p['id'], "no check registered yet for this property; see DESIGN.md")} for p in props if p['id'] not in claimed]
hook_commits = [l.split()[0] for l in subprocess.run(['git','-C','/repo','log','--format=%h %s'],capture_output=True,text=True).stdout.splitlines() if l.split(' ',1)[1].startswith('verif:')][::-1]
m = {
 "version": 1,
 "setup_cmd": "cd /verif/govc && GOFLAGS=-mod=mod GOPROXY=off go build -o /verif/bin/govc ./cmd/govc",
 "hooks": {"guard": "verif", "enable": "go build -tags verif: contract files zz_contracts_verif.go contain a package clause and //@ comments only and are excluded without the tag",
           "baseline_off_cmd": "cd /repo/tooling && GOFLAGS=-mod=mod GOPROXY=off go test -vet=off -count=1 ./...",
           "source_commits": hook_commits, "add_only": True},
 "engines": [{"name": "govc", "path": "/verif/govc", "serves_properties": sorted(claimed.keys()),
              "kind_free_text": "self-written VC generator over go/ssa of the real packages (block-encoded weakest preconditions, Burstall-Bornat heap, loops cut at invariants, calls replaced by contracts); contracts are //@ comments in build-tag-guarded files; obligations discharged by z3 5.1.0 / cvc5 1.0.3 / z3 4.8.12; counterexamples replayed with go test -overlay"}],
 "checks": checks,
 "notes": table.get('notes', ''),
 "not_applicable": na,
}
json.dump(m, open(os.path.join(root, 'MANIFEST.json'), 'w'), indent=1)
print("claimed:", sorted(claimed.keys()))
