#!/bin/bash
# seed_worktree.sh <id>: a scratch worktree of /repo at /tmp/wt/<id> for a sub-agent that writes a seeded change.
# The contract files are removed there (in a detached commit that belongs to no branch), so that the sub-agent sees
# the project as a maintainer would and `git diff` shows only its own change. The property text goes to /tmp/wt/<id>-prop.txt.
set -e
id=$1
prop=${2:-$id}
mkdir -p /tmp/wt
git -C /repo worktree add --detach -f /tmp/wt/$id HEAD >/dev/null 2>&1
cd /tmp/wt/$id
find . -name '*_verif.go' -delete
git add -A >/dev/null
git -c user.name=scratch -c user.email=scratch@example.invalid commit -qm "scratch: without the verif files" >/dev/null
mkdir -p /tmp/wt/$id-out
python3 - "$prop" "$id" <<'PY'
import json,sys
prop,idn=sys.argv[1],sys.argv[2]
for l in open('/verif/properties.jsonl'):
    p=json.loads(l)
    if p['id']==prop:
        open(f'/tmp/wt/{idn}-prop.txt','w').write(p.get('title','')+'\n\n'+p.get('statement',p.get('description',''))+'\n')
PY
echo "/tmp/wt/$id ready"
