#!/bin/bash
# run_all_quick.sh: every registered quick check, one after the other, one summary line each (development helper).
export GOFLAGS=-mod=mod GOPROXY=off
for p in $(python3 -c "import json;print(' '.join(c['property_id'] for c in json.load(open('/verif/MANIFEST.json'))['checks']))"); do
  s=$(date +%s); out=$(/verif/bin/govc check -p $p -tier quick 2>&1); rc=$?; e=$(date +%s)
  echo "$p rc=$rc t=$((e-s))s viol=$(echo "$out" | grep -cE '^VIOLATION') vac=$(echo "$out" | grep -c '^VACUOUS'); $(echo "$out" | tail -1 | cut -c1-160)"
  echo "$out" | grep -E '^VIOLATION|^VACUOUS|^KNOWN' | head -5
done
